// C06 (a): the attribute space. A proxy is described at the wire level (the xDS node a proxy sends
// when it connects: node id "type~ip~id~domain", node locality, node metadata, plus the identity the
// connection was authenticated with); the real connection set-up code turns it into a model.Proxy.
// Attributes are single edits of that description, enumerated mechanically:
//   - every field of model.NodeMetadata by reflection (by kind: bool flipped, string/enum a second
//     value, numbers changed, map one more entry, list one more element, ProxyConfig: every leaf of
//     the meshconfig.ProxyConfig message by proto reflection); a table only *adds* meaningful
//     alternative values for fields where an arbitrary string would be inert,
//   - every field of model.Proxy by reflection, mapped to the wire attribute it is derived from
//     (type, IP addresses hence IP mode, id / node name, DNS domain, locality, verified identity);
//     fields that are derived state or connection bookkeeping are listed as such. A field of either
//     struct that is not classified stops the check with an infrastructure error, so additions
//     upstream cannot silently escape.
package c06a

import (
	"fmt"
	"reflect"
	"sort"
	"strings"

	core "github.com/envoyproxy/go-control-plane/envoy/config/core/v3"
	"google.golang.org/protobuf/proto"
	"google.golang.org/protobuf/reflect/protoreflect"
	"google.golang.org/protobuf/reflect/protoregistry"
	"google.golang.org/protobuf/types/known/structpb"

	meshconfig "istio.io/api/mesh/v1alpha1"
	"istio.io/istio/pilot/pkg/model"
	pm "istio.io/istio/pkg/model"
)

// nodeSpec is the wire-level description of one proxy.
type nodeSpec struct {
	Type   string // sidecar | router | waypoint
	ID     string // <name>.<namespace>
	Domain string
	Loc    *core.Locality
	Meta   *model.NodeMetadata
	Extra  map[string]any // metadata keys that are not fields of NodeMetadata (kept in NodeMetadata.Raw)
	// Ident: "derived" = the workload certificate the mesh CA issues for (namespace, service account)
	// of the metadata, i.e. spiffe://cluster.local/ns/<Namespace>/sa/<ServiceAccount>; "none" =
	// plaintext connection (no verified identity); anything else = that SPIFFE id.
	Ident string
	// V4, V6: the workload's two addresses (both registered as endpoints of its own service); the
	// IP-mode alternatives are built from them.
	V4, V6 string
}

func (n *nodeSpec) clone() *nodeSpec {
	c := *n
	if n.Loc != nil {
		c.Loc = proto.Clone(n.Loc).(*core.Locality)
	}
	c.Meta = cloneMeta(n.Meta)
	c.Extra = map[string]any{}
	for k, v := range n.Extra {
		c.Extra[k] = v
	}
	return &c
}

func cloneMeta(m *model.NodeMetadata) *model.NodeMetadata {
	c := *m
	v := reflect.ValueOf(&c).Elem()
	for i := 0; i < v.NumField(); i++ {
		f := v.Field(i)
		switch f.Kind() {
		case reflect.Map:
			if !f.IsNil() {
				n := reflect.MakeMap(f.Type())
				for _, k := range f.MapKeys() {
					n.SetMapIndex(k, f.MapIndex(k))
				}
				f.Set(n)
			}
		case reflect.Slice:
			if !f.IsNil() {
				n := reflect.MakeSlice(f.Type(), f.Len(), f.Len())
				reflect.Copy(n, f)
				f.Set(n)
			}
		case reflect.Ptr:
			if !f.IsNil() {
				if pm, ok := f.Interface().(*model.NodeMetaProxyConfig); ok {
					f.Set(reflect.ValueOf((*model.NodeMetaProxyConfig)(proto.Clone((*meshconfig.ProxyConfig)(pm)).(*meshconfig.ProxyConfig))))
				} else {
					n := reflect.New(f.Type().Elem())
					n.Elem().Set(f.Elem())
					f.Set(n)
				}
			}
		}
	}
	return &c
}

func (n *nodeSpec) namespace() string {
	if n.Meta.Namespace != "" {
		return n.Meta.Namespace
	}
	if i := strings.IndexByte(n.ID, '.'); i >= 0 {
		return n.ID[i+1:]
	}
	return ""
}

// node builds the envoy node message the proxy would send.
func (n *nodeSpec) node() (*core.Node, []string, error) {
	st := n.Meta.ToStruct()
	if st == nil {
		return nil, nil, fmt.Errorf("metadata does not marshal")
	}
	for _, k := range sortedKeys(n.Extra) {
		v, err := structpb.NewValue(n.Extra[k])
		if err != nil {
			return nil, nil, err
		}
		st.Fields[k] = v
	}
	ip := "10.255.255.1"
	if len(n.Meta.InstanceIPs) > 0 {
		ip = n.Meta.InstanceIPs[0]
	}
	node := &core.Node{
		Id:       strings.Join([]string{n.Type, ip, n.ID, n.Domain}, "~"),
		Locality: n.Loc,
		Metadata: st,
	}
	var ids []string
	switch n.Ident {
	case "none":
		ids = nil
	case "derived", "":
		sa := n.Meta.ServiceAccount
		if sa == "" {
			sa = "default"
		}
		ids = []string{"spiffe://cluster.local/ns/" + n.namespace() + "/sa/" + sa}
	default:
		ids = []string{n.Ident}
	}
	return node, ids, nil
}

func sortedKeys[V any](m map[string]V) []string {
	out := make([]string, 0, len(m))
	for k := range m {
		out = append(out, k)
	}
	sort.Strings(out)
	return out
}

// attr is one single-attribute edit.
type attr struct {
	Name  string // unique, stable: used in replays and samples
	Group string // the attribute (field) it belongs to: used in violation keys
	Apply func(*nodeSpec)
}

// ---- table of meaningful alternative values (only adds to what reflection produces) ----

var stringAlts = map[string][]string{
	"IstioVersion":       {"1.27.3", "1.31.0", ""},
	"IstioRevision":      {"canary"},
	"Namespace":          {"other"},
	"ClusterID":          {"cluster-2", ""},
	"Network":            {"network-2", "network-3", ""},
	"InterceptionMode":   {"NONE", "TPROXY"},
	"HTTPProxyPort":      {"15007"},
	"HTTP10":             {"1"},
	"IdleTimeout":        {"30s"},
	"UnprivilegedPod":    {"true"},
	"NodeName":           {"node-2", ""},
	"Generator":          {"grpc"},
	"DNSProxyAddr":       {"127.0.0.1:15053"},
	"StsPort":            {"15463"},
	"ServiceAccount":     {"sa-other"},
	"WorkloadName":       {"app-other"},
	"TLSClientCertChain": {"/etc/certs/verif/cert-chain.pem"},
	"TLSClientKey":       {"/etc/certs/verif/key.pem"},
	"TLSClientRootCert":  {"/etc/certs/verif/root-cert.pem"},
	"TLSServerCertChain": {"/etc/certs/verif/s-cert-chain.pem"},
	"TLSServerKey":       {"/etc/certs/verif/s-key.pem"},
	"TLSServerRootCert":  {"/etc/certs/verif/s-root-cert.pem"},
}

// label edits: keys used by selectors of the configuration set and keys the generation code reads.
var labelAlts = [][2]string{
	{"app", "z"},
	{"version", "v2"},
	{"sel", "on"},
	{"istio", "ingressgateway"},
	{"istio", "eastwestgateway"},
	{"gateway.istio.io/managed", "istio.io-gateway-controller"},
	{"gateway.istio.io/managed", "istio.io-mesh-controller"},
	{"gateway.istio.io/managed", "istio.io-eastwest-controller"},
	{"topology.istio.io/network", "network-2"},
	{"topology.kubernetes.io/region", "region2"},
	{"topology.kubernetes.io/zone", "zone9"},
	{"topology.istio.io/subzone", "sub9"},
	{"topology.istio.io/cluster", "cluster-2"},
	{"pod-template-hash", "abcdef"},
	{"security.istio.io/tlsMode", "disabled"},
	{"istio.io/rev", "canary"},
	{"service.istio.io/canonical-name", "canon"},
	{"istio-locality", "region2.zone3.sub3"},
	{"verif-key", "verif-val"},
}

var mapAlts = map[string][][2]string{
	"Labels":       labelAlts,
	"StaticLabels": {{"version", "v2"}, {"sel", "on"}, {"verif-key", "verif-val"}},
	"Annotations": {
		{"verif-key", "verif-val"},
		{"sidecar.istio.io/statsInclusionPrefixes", "cluster.outbound"},
		{"traffic.sidecar.istio.io/includeInboundPorts", "8080"},
		{"proxy.istio.io/config", "concurrency: 3"},
	},
	"PlatformMetadata": {{"gcp_project", "verif"}, {"verif-key", "verif-val"}},
}

// raw metadata keys (not NodeMetadata fields) read by generation code or matched by configuration.
var rawAlts = [][2]string{
	{"CREDENTIAL_SOCKET_EXISTS", "true"},      // security.CredentialMetaDataName
	{"FILE_CREDENTIAL_SOCKET_EXISTS", "true"}, // security.CredentialFileMetaDataName
	{"VERIF_EF", "on"},                        // matched by the EnvoyFilter configurations (match.proxy.metadata)
	{"VERIF_UNUSED", "x"},
}

type ipAlt struct {
	name string
	ips  []string
}

// ipAltsOf: IP-mode and address alternatives built from the workload's two addresses; the one the
// base already has is left out.
func ipAltsOf(base *nodeSpec) []ipAlt {
	v4, v6 := base.V4, base.V6
	pre := v4[:strings.LastIndexByte(v4, '.')]
	all := []ipAlt{
		{"v4-only", []string{v4}},
		{"v6-only", []string{v6}},
		{"dual-v4-first", []string{v4, v6}},
		{"dual-v6-first", []string{v6, v4}},
		{"other-v4", []string{pre + ".99"}},
		{"two-v4", []string{v4, pre + ".98"}},
	}
	var out []ipAlt
	for _, a := range all {
		if strings.Join(a.ips, ",") != strings.Join(base.Meta.InstanceIPs, ",") {
			out = append(out, a)
		}
	}
	return out
}

func protoRegistryFind(name protoreflect.FullName) (protoreflect.MessageType, error) {
	return protoregistry.GlobalTypes.FindMessageByName(name)
}

// metaAttrs enumerates NodeMetadata by reflection.
func metaAttrs(base *nodeSpec) ([]attr, error) {
	var out []attr
	t := reflect.TypeOf(model.NodeMetadata{})
	bv := reflect.ValueOf(base.Meta).Elem()
	for i := 0; i < t.NumField(); i++ {
		f := t.Field(i)
		idx := i
		name := f.Name
		group := "meta." + name
		cur := bv.Field(i)
		set := func(label string, mk func(cur reflect.Value) reflect.Value) {
			out = append(out, attr{Name: group + "=" + label, Group: group, Apply: func(n *nodeSpec) {
				fv := reflect.ValueOf(n.Meta).Elem().Field(idx)
				fv.Set(mk(fv))
			}})
		}
		switch {
		case name == "Raw":
			for _, kv := range rawAlts {
				kv := kv
				out = append(out, attr{Name: "meta.Raw[" + kv[0] + "]=" + kv[1], Group: "meta.Raw[" + kv[0] + "]", Apply: func(n *nodeSpec) { n.Extra[kv[0]] = kv[1] }})
			}
		case name == "ProxyConfig":
			out = append(out, proxyConfigAttrs()...)
		case name == "InstanceIPs":
			for _, a := range ipAltsOf(base) {
				a := a
				set(a.name, func(reflect.Value) reflect.Value { return reflect.ValueOf(pm.StringList(a.ips)) })
			}
		case name == "RequestedNetworkView":
			for _, nv := range [][]string{{"network-1"}, {"network-2"}, {"network-1", "network-2"}} {
				nv := nv
				set(strings.Join(nv, "+"), func(reflect.Value) reflect.Value { return reflect.ValueOf(pm.StringList(nv)) })
			}
		case name == "PodPorts":
			set("+http:8080", func(c reflect.Value) reflect.Value {
				return reflect.ValueOf(append(append(pm.PodPortList{}, c.Interface().(pm.PodPortList)...), pm.PodPort{Name: "http", ContainerPort: 8080, Protocol: "TCP"}))
			})
			set("+tcp:9999", func(c reflect.Value) reflect.Value {
				return reflect.ValueOf(append(append(pm.PodPortList{}, c.Interface().(pm.PodPortList)...), pm.PodPort{Name: "tcp-x", ContainerPort: 9999, Protocol: "TCP"}))
			})
		case f.Type.Kind() == reflect.String:
			alts := append([]string(nil), stringAlts[name]...)
			if len(alts) == 0 {
				if cur.String() == "" {
					alts = []string{"verif-" + strings.ToLower(name)}
				} else {
					alts = []string{cur.String() + "-x", ""}
				}
			}
			for _, a := range alts {
				a := a
				if a == cur.String() {
					continue
				}
				label := a
				if label == "" {
					label = "<unset>"
				}
				set(label, func(c reflect.Value) reflect.Value { return reflect.ValueOf(a).Convert(c.Type()) })
			}
		case f.Type.Kind() == reflect.Bool:
			set(fmt.Sprint(!cur.Bool()), func(c reflect.Value) reflect.Value { return reflect.ValueOf(!c.Bool()).Convert(c.Type()) })
		case f.Type.Kind() == reflect.Ptr && f.Type.Elem().Kind() == reflect.Bool:
			for _, b := range []bool{true, false} {
				b := b
				if !cur.IsNil() && cur.Elem().Bool() == b {
					continue
				}
				set(fmt.Sprint(b), func(c reflect.Value) reflect.Value {
					p := reflect.New(c.Type().Elem())
					p.Elem().SetBool(b)
					return p
				})
			}
		case f.Type.Kind() == reflect.Int:
			nv := int64(15099)
			if cur.Int() != 0 {
				nv = cur.Int() + 1
			}
			set(fmt.Sprint(nv), func(c reflect.Value) reflect.Value { return reflect.ValueOf(int(nv)).Convert(c.Type()) })
		case f.Type.Kind() == reflect.Map && f.Type.Elem().Kind() == reflect.String:
			alts := mapAlts[name]
			if len(alts) == 0 {
				alts = [][2]string{{"verif-key", "verif-val"}}
			}
			for _, kv := range alts {
				kv := kv
				if cur.Kind() == reflect.Map && !cur.IsNil() {
					if v := cur.MapIndex(reflect.ValueOf(kv[0])); v.IsValid() && v.String() == kv[1] {
						continue
					}
				}
				out = append(out, attr{Name: group + "[" + kv[0] + "]=" + kv[1], Group: group + "[" + kv[0] + "]", Apply: func(n *nodeSpec) {
					fv := reflect.ValueOf(n.Meta).Elem().Field(idx)
					if fv.IsNil() {
						fv.Set(reflect.MakeMap(fv.Type()))
					}
					fv.SetMapIndex(reflect.ValueOf(kv[0]), reflect.ValueOf(kv[1]))
				}})
			}
			// and one entry removed, for every entry the base has
			if cur.Kind() == reflect.Map {
				ks := []string{}
				for _, k := range cur.MapKeys() {
					ks = append(ks, k.String())
				}
				sort.Strings(ks)
				for _, k := range ks {
					k := k
					out = append(out, attr{Name: group + "[" + k + "]=<removed>", Group: group + "[" + k + "]", Apply: func(n *nodeSpec) {
						reflect.ValueOf(n.Meta).Elem().Field(idx).SetMapIndex(reflect.ValueOf(k), reflect.Value{})
					}})
				}
			}
		case f.Type.Kind() == reflect.Slice && f.Type.Elem().Kind() == reflect.String:
			set("+verif", func(c reflect.Value) reflect.Value {
				n := reflect.MakeSlice(c.Type(), 0, c.Len()+1)
				n = reflect.AppendSlice(n, c)
				return reflect.Append(n, reflect.ValueOf("verif"))
			})
		default:
			return nil, fmt.Errorf("NodeMetadata.%s: kind %s (%s) is not handled by the attribute enumeration", name, f.Type.Kind(), f.Type)
		}
	}
	return out, nil
}

// ---- ProxyConfig leaves by proto reflection ----

type pcLeaf struct {
	path  string
	apply func(pc *meshconfig.ProxyConfig)
}

func proxyConfigAttrs() []attr {
	var leaves []pcLeaf
	md := (&meshconfig.ProxyConfig{}).ProtoReflect().Descriptor()
	walkMsg(md, "", nil, 0, map[protoreflect.FullName]bool{}, &leaves)
	out := []attr{{Name: "meta.ProxyConfig=<unset>", Group: "meta.ProxyConfig", Apply: func(n *nodeSpec) { n.Meta.ProxyConfig = nil }}}
	for _, l := range leaves {
		l := l
		seg := strings.SplitN(l.path, "=", 2)[0]
		parts := strings.Split(seg, ".")
		if len(parts) > 2 {
			parts = parts[:2]
		}
		out = append(out, attr{Name: "meta.ProxyConfig." + l.path, Group: "meta.ProxyConfig." + strings.Join(parts, "."), Apply: func(n *nodeSpec) {
			if n.Meta.ProxyConfig == nil {
				n.Meta.ProxyConfig = &model.NodeMetaProxyConfig{}
			}
			l.apply((*meshconfig.ProxyConfig)(n.Meta.ProxyConfig))
		}})
	}
	return out
}

type step struct {
	fd protoreflect.FieldDescriptor
}

// descend returns the (mutable) message reached by following steps from root.
func descend(root protoreflect.Message, steps []step) protoreflect.Message {
	m := root
	for _, s := range steps {
		if s.fd.IsList() {
			l := m.Mutable(s.fd).List()
			if l.Len() == 0 {
				l.Append(l.NewElement())
			}
			m = l.Get(0).Message()
		} else {
			m = m.Mutable(s.fd).Message()
		}
	}
	return m
}

func isWKT(md protoreflect.MessageDescriptor) bool {
	return strings.HasPrefix(string(md.FullName()), "google.protobuf.")
}

func walkMsg(md protoreflect.MessageDescriptor, prefix string, steps []step, depth int, onPath map[protoreflect.FullName]bool, out *[]pcLeaf) {
	if depth > 6 || onPath[md.FullName()] {
		return
	}
	onPath[md.FullName()] = true
	defer delete(onPath, md.FullName())
	fds := md.Fields()
	for i := 0; i < fds.Len(); i++ {
		fd := fds.Get(i)
		path := prefix + fd.JSONName()
		st := append([]step(nil), steps...)
		add := func(label string, f func(m protoreflect.Message)) {
			*out = append(*out, pcLeaf{path: path + "=" + label, apply: func(pc *meshconfig.ProxyConfig) { f(descend(pc.ProtoReflect(), st)) }})
		}
		switch {
		case fd.IsMap():
			if fd.MapValue().Kind() == protoreflect.StringKind && fd.MapKey().Kind() == protoreflect.StringKind {
				add("+entry", func(m protoreflect.Message) {
					m.Mutable(fd).Map().Set(protoreflect.ValueOfString("VERIF_KEY").MapKey(), protoreflect.ValueOfString("verif-val"))
				})
			}
		case fd.Kind() == protoreflect.MessageKind || fd.Kind() == protoreflect.GroupKind:
			sub := fd.Message()
			if isWKT(sub) {
				for _, wv := range wktValues(sub) {
					wv := wv
					add(wv.label, func(m protoreflect.Message) {
						if fd.IsList() {
							m.Mutable(fd).List().Append(protoreflect.ValueOfMessage(wv.msg.ProtoReflect()))
						} else {
							m.Set(fd, protoreflect.ValueOfMessage(proto.Clone(wv.msg).ProtoReflect()))
						}
					})
				}
				continue
			}
			// presence alone
			add("{}", func(m protoreflect.Message) {
				if fd.IsList() {
					l := m.Mutable(fd).List()
					l.Append(l.NewElement())
				} else {
					m.Mutable(fd)
				}
			})
			walkMsg(sub, path+".", append(st, step{fd}), depth+1, onPath, out)
		default:
			for _, sv := range scalarValues(fd) {
				sv := sv
				add(sv.label, func(m protoreflect.Message) {
					if fd.IsList() {
						m.Mutable(fd).List().Append(sv.v)
					} else {
						m.Set(fd, sv.v)
					}
				})
			}
		}
	}
}

type labelled struct {
	label string
	v     protoreflect.Value
}

func scalarValues(fd protoreflect.FieldDescriptor) []labelled {
	switch fd.Kind() {
	case protoreflect.BoolKind:
		return []labelled{{"true", protoreflect.ValueOfBool(true)}}
	case protoreflect.StringKind:
		return []labelled{{"verif", protoreflect.ValueOfString("verif")}}
	case protoreflect.BytesKind:
		return []labelled{{"verif", protoreflect.ValueOfBytes([]byte("verif"))}}
	case protoreflect.EnumKind:
		var out []labelled
		vs := fd.Enum().Values()
		for i := 0; i < vs.Len(); i++ {
			if vs.Get(i).Number() == 0 {
				continue
			}
			out = append(out, labelled{string(vs.Get(i).Name()), protoreflect.ValueOfEnum(vs.Get(i).Number())})
		}
		return out
	case protoreflect.Int32Kind, protoreflect.Sint32Kind, protoreflect.Sfixed32Kind:
		return []labelled{{"7", protoreflect.ValueOfInt32(7)}}
	case protoreflect.Int64Kind, protoreflect.Sint64Kind, protoreflect.Sfixed64Kind:
		return []labelled{{"7", protoreflect.ValueOfInt64(7)}}
	case protoreflect.Uint32Kind, protoreflect.Fixed32Kind:
		return []labelled{{"7", protoreflect.ValueOfUint32(7)}}
	case protoreflect.Uint64Kind, protoreflect.Fixed64Kind:
		return []labelled{{"7", protoreflect.ValueOfUint64(7)}}
	case protoreflect.FloatKind:
		return []labelled{{"7.5", protoreflect.ValueOfFloat32(7.5)}}
	case protoreflect.DoubleKind:
		return []labelled{{"7.5", protoreflect.ValueOfFloat64(7.5)}}
	}
	return nil
}

type wktValue struct {
	label string
	msg   proto.Message
}

func wktValues(md protoreflect.MessageDescriptor) []wktValue {
	mk := func(set func(m protoreflect.Message)) proto.Message {
		mt, err := protoRegistryFind(md.FullName())
		if err != nil {
			return nil
		}
		m := mt.New()
		set(m)
		return m.Interface()
	}
	f := func(name string) protoreflect.FieldDescriptor { return md.Fields().ByName(protoreflect.Name(name)) }
	switch md.FullName() {
	case "google.protobuf.BoolValue":
		return []wktValue{
			{"true", mk(func(m protoreflect.Message) { m.Set(f("value"), protoreflect.ValueOfBool(true)) })},
			{"false", mk(func(m protoreflect.Message) { m.Set(f("value"), protoreflect.ValueOfBool(false)) })},
		}
	case "google.protobuf.Int32Value":
		return []wktValue{{"7", mk(func(m protoreflect.Message) { m.Set(f("value"), protoreflect.ValueOfInt32(7)) })}}
	case "google.protobuf.UInt32Value":
		return []wktValue{{"7", mk(func(m protoreflect.Message) { m.Set(f("value"), protoreflect.ValueOfUint32(7)) })}}
	case "google.protobuf.Int64Value":
		return []wktValue{{"7", mk(func(m protoreflect.Message) { m.Set(f("value"), protoreflect.ValueOfInt64(7)) })}}
	case "google.protobuf.UInt64Value":
		return []wktValue{{"7", mk(func(m protoreflect.Message) { m.Set(f("value"), protoreflect.ValueOfUint64(7)) })}}
	case "google.protobuf.DoubleValue":
		return []wktValue{{"7.5", mk(func(m protoreflect.Message) { m.Set(f("value"), protoreflect.ValueOfFloat64(7.5)) })}}
	case "google.protobuf.FloatValue":
		return []wktValue{{"7.5", mk(func(m protoreflect.Message) { m.Set(f("value"), protoreflect.ValueOfFloat32(7.5)) })}}
	case "google.protobuf.StringValue":
		return []wktValue{{"verif", mk(func(m protoreflect.Message) { m.Set(f("value"), protoreflect.ValueOfString("verif")) })}}
	case "google.protobuf.Duration":
		return []wktValue{{"7s", mk(func(m protoreflect.Message) { m.Set(f("seconds"), protoreflect.ValueOfInt64(7)) })}}
	}
	return nil
}

// ---- attributes that are not metadata fields ----

func nodeAttrs(base *nodeSpec) []attr {
	var out []attr
	for _, t := range []string{"sidecar", "router", "waypoint"} {
		t := t
		if t != base.Type {
			out = append(out, attr{Name: "node.type=" + t, Group: "node.type", Apply: func(n *nodeSpec) { n.Type = t }})
		}
	}
	ns := base.namespace()
	out = append(out,
		attr{Name: "node.id=other-name", Group: "node.id", Apply: func(n *nodeSpec) { n.ID = "other-pod-7." + ns }},
		attr{Name: "node.domain=other-suffix", Group: "node.domain", Apply: func(n *nodeSpec) { n.Domain = ns + ".svc.example.org" }},
		attr{Name: "node.domain=other-namespace", Group: "node.domain", Apply: func(n *nodeSpec) { n.Domain = "other.svc.cluster.local" }},
		attr{Name: "node.locality=other-region", Group: "node.locality", Apply: func(n *nodeSpec) { n.Loc = &core.Locality{Region: "region2", Zone: "zone3", SubZone: "sub3"} }},
		attr{Name: "node.locality=other-zone", Group: "node.locality", Apply: func(n *nodeSpec) { n.Loc = &core.Locality{Region: "region1", Zone: "zone2", SubZone: "sub2"} }},
		attr{Name: "node.locality=other-subzone", Group: "node.locality", Apply: func(n *nodeSpec) { n.Loc = &core.Locality{Region: "region1", Zone: "zone1", SubZone: "sub9"} }},
		attr{Name: "node.locality=region-only", Group: "node.locality", Apply: func(n *nodeSpec) { n.Loc = &core.Locality{Region: "region1"} }},
		attr{Name: "node.locality=<unset>", Group: "node.locality", Apply: func(n *nodeSpec) { n.Loc = nil }},
		attr{Name: "identity=<none>", Group: "identity", Apply: func(n *nodeSpec) { n.Ident = "none" }},
		attr{Name: "identity=other-trust-domain", Group: "identity", Apply: func(n *nodeSpec) {
			sa := n.Meta.ServiceAccount
			if sa == "" {
				sa = "default"
			}
			n.Ident = "spiffe://td2.example/ns/" + n.namespace() + "/sa/" + sa
		}},
	)
	return out
}

// proxyFieldSource classifies every field of model.Proxy: the wire attribute(s) it is computed from,
// "derived:" state recomputed by the connection set-up from configuration + other fields, or
// "conn:" bookkeeping of one connection that generation of CDS/EDS/RDS/SDS must not depend on.
var proxyFieldSource = map[string]string{
	"RWMutex":                  "conn:lock",
	"Type":                     "node.type",
	"IPAddresses":              "meta.InstanceIPs (node id IP as fallback)",
	"ID":                       "node.id",
	"Locality":                 "node.locality, meta.Labels[topology.*], meta.Labels[istio-locality]",
	"DNSDomain":                "node.domain",
	"ConfigNamespace":          "meta.Namespace (node.domain as fallback)",
	"Labels":                   "meta.Labels, meta.StaticLabels (+ registry workload labels, topology labels from meta.ClusterID/Network/NodeName)",
	"Metadata":                 "meta.*",
	"SidecarScope":             "derived:SetSidecarScope",
	"PrevSidecarScope":         "derived:SetSidecarScope",
	"MergedGateway":            "derived:SetGatewaysForProxy",
	"PrevMergedGateway":        "derived:SetGatewaysForProxy",
	"ServiceTargets":           "derived:SetServiceTargets",
	"LocalService":             "derived:SetServiceTargets",
	"PrevLocalService":         "derived:SetServiceTargets",
	"IstioVersion":             "meta.IstioVersion",
	"VerifiedIdentity":         "identity (+ meta.Namespace, meta.ServiceAccount through authorize)",
	"ipMode":                   "derived:DiscoverIPMode from meta.InstanceIPs",
	"GlobalUnicastIP":          "derived:DiscoverIPMode from meta.InstanceIPs",
	"XdsResourceGenerator":     "meta.Generator",
	"WatchedResources":         "conn:subscriptions",
	"XdsNode":                  "conn:the node message itself",
	"workloadEntryName":        "conn:auto-registration",
	"workloadEntryAutoCreated": "conn:auto-registration",
	"LastPushContext":          "conn:push bookkeeping",
	"LastPushTime":             "conn:push bookkeeping",
}

func checkProxyFieldsClassified() error {
	t := reflect.TypeOf(model.Proxy{})
	for i := 0; i < t.NumField(); i++ {
		if _, ok := proxyFieldSource[t.Field(i).Name]; !ok {
			return fmt.Errorf("model.Proxy.%s is not classified in proxyFieldSource (new field upstream?)", t.Field(i).Name)
		}
	}
	return nil
}

// attributesOf lists every attribute for a base proxy, in a deterministic order.
func attributesOf(base *nodeSpec) ([]attr, error) {
	if err := checkProxyFieldsClassified(); err != nil {
		return nil, err
	}
	ma, err := metaAttrs(base)
	if err != nil {
		return nil, err
	}
	out := append(nodeAttrs(base), ma...)
	seen := map[string]bool{}
	for _, a := range out {
		if seen[a.Name] {
			return nil, fmt.Errorf("duplicate attribute name %q", a.Name)
		}
		seen[a.Name] = true
	}
	return out, nil
}
