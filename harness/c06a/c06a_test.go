// C06 (a) key completeness: no proxy ever receives a cached resource built for a proxy whose
// relevant attributes differ.
//
// For every configuration of the set and every single-attribute edit A -> A' of the base proxy of
// that configuration, on the configuration's one real control plane:
//
//	order "A,A'": cache emptied; A asks for CDS, EDS, RDS, SDS (fills the cache); A' asks (warm)
//	order "A',A": cache emptied; A' asks (fills the cache); A asks (warm)
//
// The answer a proxy gets on the warm cache must equal, resource by resource, the answer the same
// call gives right after XdsCache.ClearAll() (nothing else changes in between: the control plane is
// quiescent, which the harness checks by generating the base proxy's answer twice). The fresh answer
// of A' is its cold answer of order "A',A"; the fresh answer of A is generated once per configuration
// and re-checked against every cold answer of order "A,A'".
// What a proxy subscribes to (EDS cluster names, RDS route names, SDS secret names) is derived from
// its own cache-free CDS and LDS, as Envoy would.
package c06a

import (
	"fmt"
	"strings"
	"testing"
	"testing/synctest"

	"istio.io/istio/pilot/pkg/model"
	"istio.io/istio/zz_verif/engine"
)

type replayCase struct {
	Base   string `json:"base,omitempty"`
	Config string `json:"config"`
	Attr   string `json:"attribute"`
	Order  string `json:"order"`
	Type   string `json:"type"`
}

type cellStats struct {
	matters map[string]bool
	hit     map[string]bool
}

func subDiffers(a, b subscription) bool {
	return strings.Join(a.EDS, ",") != strings.Join(b.EDS, ",") || strings.Join(a.RDS, ",") != strings.Join(b.RDS, ",") ||
		strings.Join(a.SDS, ",") != strings.Join(b.SDS, ",")
}

type runner struct {
	t   *testing.T
	env *engine.Env
	res *engine.Result
	// only: when set (replay), report only violations of this type / order
	only *replayCase
	// variant: the base proxy variant of the current run ("default", or one of baseVariants in the thorough tier)
	variant string
}

func (r *runner) violate(c *cfg, a attr, order, typ string, who string, served, fresh *response, names []string) {
	if r.only != nil && (r.only.Type != typ || r.only.Order != order) {
		return
	}
	n := names[0]
	var detail string
	switch {
	case n == "<error>":
		detail = fmt.Sprintf("error served %q, fresh %q", served.Err, fresh.Err)
	case served.Res[n] == nil:
		detail = "resource missing from the warm-cache answer"
	case fresh.Res[n] == nil:
		detail = "resource present only in the warm-cache answer"
	default:
		detail = firstDiff(canon(served.Res[n]), canon(fresh.Res[n]))
	}
	key := fmt.Sprintf("key-completeness:%s:%s", typ, a.Group)
	desc := fmt.Sprintf("configuration %s, base proxy "+r.variant+", attribute %s, order %s: the %s answer served to proxy %s from the warm shared cache (%s) differs from its own fresh generation after ClearAll in %d resource(s) %v; %s: %s",
		c.Name, a.Name, order, typ, who, served.Info, len(names), clip(names, 4), n, detail)
	r.res.Violate(key, desc, replayCase{Base: r.variant, Config: c.Name, Attr: a.Name, Order: order, Type: typ})
}

func clip(s []string, n int) []string {
	if len(s) > n {
		return append(append([]string{}, s[:n]...), "...")
	}
	return s
}

// runConfig runs the cells (c, attrs[i]) for i in mine.
func (r *runner) runConfig(c *cfg, attrs []attr, mine []int) {
	fail := bubble(r.t, func(bt *testing.T) {
		var restore []func()
		for _, f := range c.Flags {
			restore = append(restore, f.Set())
		}
		defer func() {
			for i := len(restore) - 1; i >= 0; i-- {
				restore[i]()
			}
		}()
		srv := newServer(bt, c)
		base := c.baseSpecOf(r.variant)
		pA, err := srv.proxy(base)
		if err != nil {
			r.res.Infra = fmt.Sprintf("%s: base proxy refused: %v", c.Name, err)
			return
		}
		srv.clearCache()
		cdsA := srv.generate(pA, "CDS", nil)
		subA := srv.subscribe(pA, cdsA)
		freshA := srv.all(pA, subA, cdsA)
		srv.clearCache()
		again := srv.all(pA, subA, nil)
		for _, typ := range xdsTypes {
			if d, _ := diffResponses(freshA.By[typ], again.By[typ]); len(d) > 0 {
				r.res.Infra = fmt.Sprintf("%s: two cache-free generations of %s for the base proxy differ in %v: %s", c.Name, typ, clip(d, 3),
					firstDiff(canon(freshA.By[typ].Res[d[0]]), canon(again.By[typ].Res[d[0]])))
				return
			}
			if e := freshA.By[typ].Err; e != "" {
				r.res.Infra = fmt.Sprintf("%s: %s generation for the base proxy fails: %s", c.Name, typ, e)
				return
			}
		}
		r.res.Bounds["base:"+r.variant+":"+c.Name] = fmt.Sprintf("%s proxy: CDS %d resources, EDS %d names, RDS %d names, SDS %d names", c.Base, len(freshA.By["CDS"].Order), len(subA.EDS), len(subA.RDS), len(subA.SDS))
		for _, ai := range mine {
			if r.env.Expired() {
				r.res.Cap(fmt.Sprintf("deadline in configuration %s", c.Name))
				return
			}
			r.cell(srv, c, attrs[ai], base, pA, subA, freshA)
		}
	})
	if fail != "" && r.res.Infra == "" {
		r.res.Infra = fmt.Sprintf("%s: bubble: %s", c.Name, fail)
	}
}

func (r *runner) cell(srv *server, c *cfg, a attr, base *nodeSpec, pA *model.Proxy, subA subscription, freshA *answers) {
	spec := base.clone()
	a.Apply(spec)
	pB, err := srv.proxy(spec)
	if err != nil {
		// this description cannot connect (for example no valid IP address): not a pair of proxies
		r.res.Evaluations++
		r.res.Outcome("refused-at-connect")
		r.res.Count("attribute-refused-at-connect", 1)
		return
	}
	// order A',A
	srv.clearCache()
	cdsB := srv.generate(pB, "CDS", nil)
	subB := srv.subscribe(pB, cdsB)
	coldB := srv.all(pB, subB, cdsB)
	warmA := srv.all(pA, subA, nil)
	// order A,A'
	srv.clearCache()
	coldA := srv.all(pA, subA, nil)
	warmB := srv.all(pB, subB, nil)
	r.res.Evaluations += 2

	anyMatters, anyShared := false, false
	for _, typ := range xdsTypes {
		if d, _ := diffResponses(freshA.By[typ], coldA.By[typ]); len(d) > 0 {
			r.res.Infra = fmt.Sprintf("%s / %s: cache-free %s generation for the base proxy changed over time: %v: %s", c.Name, a.Name, typ, clip(d, 3),
				firstDiff(canon(coldA.By[typ].Res[d[0]]), canon(freshA.By[typ].Res[d[0]])))
			return
		}
		dAB, _ := diffResponses(freshA.By[typ], coldB.By[typ])
		matters := len(dAB) > 0
		sharedB := warmB.By[typ].Hits > 0 // A' was handed entries written for A
		sharedA := warmA.By[typ].Hits > 0 // A was handed entries written for A'
		badB, boB := diffResponses(warmB.By[typ], coldB.By[typ])
		badA, boA := diffResponses(warmA.By[typ], freshA.By[typ])
		r.res.Count("byte-only-differences", int64(boA+boB))
		r.res.Count("cells:"+typ, 1)
		r.res.Count("cache-hits:"+typ, int64(warmA.By[typ].Hits+warmB.By[typ].Hits))
		r.res.Count("cache-lookups:"+typ, int64(warmA.By[typ].Lookup+warmB.By[typ].Lookup))
		if matters {
			anyMatters = true
			r.res.Count("cells-attribute-matters:"+typ, 1)
			r.res.Count("matters:"+typ+":"+a.Group, 1)
			if sharedA || sharedB {
				anyShared = true
				r.res.Count("cells-attribute-matters-and-cache-hit:"+typ, 1)
				r.res.NontrivialCase(r.variant + "|" + c.Name + "|" + a.Name + "|" + typ)
			}
		}
		if e := warmB.By[typ].Err + coldB.By[typ].Err; e != "" {
			if len(e) > 60 {
				e = e[:60]
			}
			r.res.Count("generation-error:"+typ+":"+a.Group+":"+e, 1)
		}
		verdict := "ok"
		if len(badB) > 0 {
			verdict = "VIOLATION"
			r.violate(c, a, "A,A'", typ, "A' ("+a.Name+")", warmB.By[typ], coldB.By[typ], badB)
		}
		if len(badA) > 0 {
			verdict = "VIOLATION"
			r.violate(c, a, "A',A", typ, "A (base)", warmA.By[typ], freshA.By[typ], badA)
		}
		r.res.Outcome(fmt.Sprintf("%s outputs-differ=%v shared-entries=%v %s", typ, matters, sharedA || sharedB, verdict))
	}
	if subDiffers(subA, subB) {
		r.res.Count("cells-subscription-differs", 1)
	}
	if anyMatters && anyShared {
		r.res.Sample(map[string]any{"configuration": c.Name, "attribute": a.Name,
			"CDS": warmB.By["CDS"].Info, "EDS": warmB.By["EDS"].Info, "RDS": warmB.By["RDS"].Info, "SDS": warmB.By["SDS"].Info})
	}
}

// bubble runs f in a synctest bubble with the bubble's own T (so that the control plane's cleanups
// run inside it); a failure of the bubble machinery is returned instead of killing the worker.
func bubble(t *testing.T, f func(bt *testing.T)) (failure string) {
	defer func() {
		if r := recover(); r != nil {
			failure = fmt.Sprint(r)
		}
	}()
	synctest.Test(t, f)
	return ""
}

func TestC06a(t *testing.T) {
	env := engine.GetEnv()
	res := engine.NewResult("C06", "a-key-completeness")
	res.Rule = "cases = (configuration, single-attribute edit of the base proxy, request order): every field of model.NodeMetadata by reflection (ProxyConfig down to every leaf by proto reflection), every wire attribute behind the fields of model.Proxy, x every configuration of the set x both orders; each answer (CDS, EDS for every EDS cluster, RDS for every route the listeners reference, SDS for every istiod-served secret) on the warm shared XdsCache is compared resource by resource with the same call after ClearAll; non-trivial = (configuration, attribute, type) where the two proxies' cache-free answers differ AND the second proxy was served at least one cached entry of that type"
	defer res.Write(t, env)
	r := &runner{t: t, env: env, res: res}

	cfgs := configurations()
	variants := []string{"default"}
	if env.Thorough() {
		variants = nil
		for _, v := range baseVariants {
			variants = append(variants, v.Name)
		}
	}
	attrsOf := map[string][]attr{} // by variant/base type
	groups := map[string]bool{}
	for _, v := range variants {
		for _, c := range cfgs {
			k := v + "/" + c.Base
			if _, ok := attrsOf[k]; ok {
				continue
			}
			as, err := attributesOf(c.baseSpecOf(v))
			if err != nil {
				res.Infra = err.Error()
				return
			}
			attrsOf[k] = as
			for _, a := range as {
				groups[a.Group] = true
			}
		}
	}
	res.Bounds["configurations"] = len(cfgs)
	res.Bounds["base-proxy-variants"] = strings.Join(variants, ",")
	res.Bounds["attribute-edits-sidecar-base"] = len(attrsOf["default/sidecar"])
	res.Bounds["attribute-edits-router-base"] = len(attrsOf["default/router"])
	res.Bounds["attributes"] = len(groups)
	res.Bounds["orders"] = 2
	res.Bounds["types"] = strings.Join(xdsTypes, ",")

	if env.Replay != "" {
		var rc replayCase
		if err := engine.ReadReplay(env.Replay, &rc); err != nil {
			t.Fatal(err)
		}
		if rc.Base == "" {
			rc.Base = "default"
		}
		r.only, r.variant = &rc, rc.Base
		for _, c := range cfgs {
			if c.Name != rc.Config {
				continue
			}
			as, err := attributesOf(c.baseSpecOf(rc.Base))
			if err != nil {
				t.Fatal(err)
			}
			for i, a := range as {
				if a.Name == rc.Attr {
					r.runConfig(c, as, []int{i})
					return
				}
			}
		}
		t.Fatalf("replay names an unknown case: %+v", rc)
	}

	var ord int64
	for _, v := range variants {
		r.variant = v
		for _, c := range cfgs {
			attrs := attrsOf[v+"/"+c.Base]
			var mine []int
			for i := range attrs {
				if env.Mine(ord) {
					mine = append(mine, i)
				}
				ord++
			}
			if len(mine) == 0 {
				continue
			}
			if env.Expired() {
				res.Cap("deadline before configuration " + c.Name)
				return
			}
			r.runConfig(c, attrs, mine)
			if res.Infra != "" {
				return
			}
		}
	}
	res.Bounds["cells"] = ord
}
