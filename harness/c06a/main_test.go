package c06a

import (
	"os"
	"testing"

	"istio.io/istio/pkg/log"
)

// The control-plane code logs ~75 lines per environment built; only errors are of interest here.
func TestMain(m *testing.M) {
	for _, s := range log.Scopes() {
		s.SetOutputLevel(log.ErrorLevel)
	}
	os.Exit(m.Run())
}
