// C06 (a): the control plane under test. One real FakeDiscoveryServer (pilot/test/xds: real
// DiscoveryServer, real XdsCache, real generators, real registries and config stores) per
// configuration, built inside a testing/synctest bubble so that "everything has settled" is a
// deterministic statement. Services and their endpoints are put into the in-memory registry and the
// EndpointIndex directly, because that gives control over every endpoint attribute the generators
// read (network, cluster, locality, labels, TLS mode, node, discoverability).
package c06a

import (
	"fmt"
	"os"
	"path/filepath"
	"sort"
	"strings"
	"testing"
	"testing/synctest"
	"time"

	cluster "github.com/envoyproxy/go-control-plane/envoy/config/cluster/v3"
	core "github.com/envoyproxy/go-control-plane/envoy/config/core/v3"
	discovery "github.com/envoyproxy/go-control-plane/envoy/service/discovery/v3"
	"google.golang.org/protobuf/encoding/prototext"
	"google.golang.org/protobuf/proto"
	"google.golang.org/protobuf/reflect/protoreflect"
	"google.golang.org/protobuf/reflect/protoregistry"
	"google.golang.org/protobuf/types/known/anypb"
	corev1 "k8s.io/api/core/v1"
	metav1 "k8s.io/apimachinery/pkg/apis/meta/v1"
	"k8s.io/apimachinery/pkg/runtime"

	meshconfig "istio.io/api/mesh/v1alpha1"
	"istio.io/istio/pilot/pkg/model"
	"istio.io/istio/pilot/pkg/serviceregistry/provider"
	labelutil "istio.io/istio/pilot/pkg/serviceregistry/util/label"
	v3 "istio.io/istio/pilot/pkg/xds/v3"
	xdsfake "istio.io/istio/pilot/test/xds"
	istiocluster "istio.io/istio/pkg/cluster"
	"istio.io/istio/pkg/config/host"
	"istio.io/istio/pkg/config/mesh"
	"istio.io/istio/pkg/config/protocol"
	"istio.io/istio/pkg/network"
	"istio.io/istio/pkg/util/sets"
)

const (
	cK = "Kubernetes"
	c2 = "cluster-2"
	c3 = "cluster-3"
	n1 = "network-1"
	n2 = "network-2"
	n3 = "network-3"

	debounce = 5 * time.Second
)

// worldOpts are the knobs of the service fixture a configuration may turn.
type worldOpts struct {
	Gateways    bool // east-west gateways: network-2 has an IPv4 and an IPv6 one, network-3 only an IPv6 one
	HBONEGws    bool // the gateways also expose an HBONE port
	NodeLocalB  bool // service b is node-local (internalTrafficPolicy: Local)
	SameCluster bool // endpoints of c are discoverable from their own cluster only (MCS policy)
	TrafficDist bool // b: trafficDistribution PreferSameNode, c: PreferSameZone
}

type epSpec struct {
	addr    string
	net     string
	cluster string
	loc     string
	labels  map[string]string
	tls     bool
	node    string
	sa      string
	health  model.HealthStatus
	weight  uint32
}

func mkService(name, ns, vipK, vip2 string, extraK []string, ports model.PortList) *model.Service {
	hn := host.Name(name + "." + ns + ".svc.cluster.local")
	addrs := map[istiocluster.ID][]string{cK: append([]string{vipK}, extraK...), c2: {vip2}}
	return &model.Service{
		Hostname:       hn,
		DefaultAddress: vipK,
		ClusterVIPs:    model.AddressMap{Addresses: addrs},
		Ports:          ports,
		Resolution:     model.ClientSideLB,
		ServiceAccounts: []string{
			"spiffe://cluster.local/ns/" + ns + "/sa/sa-" + name,
		},
		Attributes: model.ServiceAttributes{
			ServiceRegistry: provider.Kubernetes,
			Name:            name,
			Namespace:       ns,
			Labels:          map[string]string{"app": name},
			LabelSelectors:  map[string]string{"app": name},
		},
	}
}

func worldServices(o worldOpts) []*model.Service {
	a := mkService("a", "default", "10.0.0.1", "10.0.1.1", nil, model.PortList{
		{Name: "http", Port: 80, Protocol: protocol.HTTP},
	})
	b := mkService("b", "default", "10.0.0.2", "10.0.1.2", []string{"fd00:0:0:1::2"}, model.PortList{
		{Name: "http", Port: 80, Protocol: protocol.HTTP},
		{Name: "tcp", Port: 9000, Protocol: protocol.TCP},
		{Name: "auto", Port: 9100, Protocol: protocol.Unsupported},
	})
	b.Attributes.NodeLocal = o.NodeLocalB
	c := mkService("c", "other", "10.0.0.3", "10.0.1.3", nil, model.PortList{
		{Name: "http", Port: 80, Protocol: protocol.HTTP},
		{Name: "http2", Port: 81, Protocol: protocol.HTTP2},
	})
	if o.TrafficDist {
		b.Attributes.TrafficDistribution = model.TrafficDistributionPreferSameNode
		c.Attributes.TrafficDistribution = model.TrafficDistributionPreferSameZone
	}
	gw := mkService("istio-ingressgateway", "istio-system", "10.0.0.9", "10.0.1.9", nil, model.PortList{
		{Name: "http2", Port: 80, Protocol: protocol.HTTP2},
		{Name: "https", Port: 443, Protocol: protocol.HTTPS},
	})
	gw.Attributes.Labels = map[string]string{"app": "istio-ingressgateway", "istio": "ingressgateway"}
	gw.Attributes.LabelSelectors = gw.Attributes.Labels
	return []*model.Service{a, b, c, gw}
}

func endpointsOf(svc *model.Service, specs []epSpec, policy model.EndpointDiscoverabilityPolicy) map[string][]*model.IstioEndpoint {
	out := map[string][]*model.IstioEndpoint{}
	for _, s := range specs {
		for _, p := range svc.Ports {
			l := map[string]string{}
			for k, v := range s.labels {
				l[k] = v
			}
			tls := ""
			if s.tls {
				tls = model.IstioMutualTLSModeLabel
			}
			out[s.cluster] = append(out[s.cluster], &model.IstioEndpoint{
				Addresses:             []string{s.addr},
				Labels:                labelutil.AugmentLabels(l, istiocluster.ID(s.cluster), s.loc, s.node, network.ID(s.net)),
				ServicePortName:       p.Name,
				EndpointPort:          uint32(8000 + p.Port%1000),
				ServiceAccount:        "spiffe://cluster.local/ns/" + svc.Attributes.Namespace + "/sa/" + s.sa,
				Network:               network.ID(s.net),
				Locality:              model.Locality{Label: s.loc, ClusterID: istiocluster.ID(s.cluster)},
				LbWeight:              s.weight,
				TLSMode:               tls,
				Namespace:             svc.Attributes.Namespace,
				WorkloadName:          "app-" + svc.Attributes.Name,
				HealthStatus:          s.health,
				NodeName:              s.node,
				DiscoverabilityPolicy: policy,
			})
		}
	}
	return out
}

func lbl(kv ...string) map[string]string {
	m := map[string]string{}
	for i := 0; i+1 < len(kv); i += 2 {
		m[kv[i]] = kv[i+1]
	}
	return m
}

var (
	epsA = []epSpec{
		{addr: "10.1.0.1", net: n1, cluster: cK, loc: "region1/zone1/sub1", labels: lbl("app", "a", "version", "v1"), tls: true, node: "node-1", sa: "sa-a"},
		{addr: "fd00::1:1", net: n1, cluster: cK, loc: "region1/zone1/sub1", labels: lbl("app", "a", "version", "v1"), tls: true, node: "node-1", sa: "sa-a"},
		{addr: "10.1.0.7", net: n2, cluster: c2, loc: "region2/zone3/sub3", labels: lbl("app", "a", "version", "v1", "pod-template-hash", "abcdef"), tls: true, node: "node-3", sa: "sa-a"},
	}
	epsB = []epSpec{
		{addr: "10.2.0.1", net: n1, cluster: cK, loc: "region1/zone1/sub1", labels: lbl("app", "b", "version", "v1"), tls: true, node: "node-1", sa: "sa-b"},
		{addr: "10.2.0.2", net: n1, cluster: cK, loc: "region1/zone2/sub2", labels: lbl("app", "b", "version", "v2"), tls: true, node: "node-2", sa: "sa-b", weight: 3},
		{addr: "fd00::2:3", net: n1, cluster: cK, loc: "region1/zone1/sub9", labels: lbl("app", "b", "version", "v1"), tls: true, node: "node-2", sa: "sa-b"},
		{addr: "10.2.1.1", net: n2, cluster: c2, loc: "region2/zone3/sub3", labels: lbl("app", "b", "version", "v1"), tls: true, node: "node-3", sa: "sa-b"},
		{addr: "10.2.1.2", net: n2, cluster: c2, loc: "region2/zone3/sub3", labels: lbl("app", "b", "version", "v2"), tls: false, node: "node-3", sa: "sa-b"},
		{addr: "10.2.2.1", net: n3, cluster: c3, loc: "region3/zone5/sub5", labels: lbl("app", "b", "version", "v1", "networking.istio.io/tunnel", "http"), tls: true, node: "node-5", sa: "sa-b2"},
		{addr: "10.2.0.4", net: n1, cluster: cK, loc: "region1/zone1/sub1", labels: lbl("app", "b", "version", "v2", "networking.istio.io/tunnel", "http"), tls: false, node: "node-2", sa: "sa-b"},
		{addr: "10.2.0.9", net: n1, cluster: cK, loc: "region1/zone1/sub1", labels: lbl("app", "b", "version", "v1"), tls: true, node: "node-1", sa: "sa-b", health: model.UnHealthy},
	}
	epsC = []epSpec{
		{addr: "10.3.0.1", net: n1, cluster: cK, loc: "region1/zone1/sub1", labels: lbl("app", "c", "version", "v1"), tls: true, node: "node-1", sa: "sa-c"},
		{addr: "10.3.1.1", net: n2, cluster: c2, loc: "region2/zone3/sub3", labels: lbl("app", "c", "version", "v1"), tls: true, node: "node-3", sa: "sa-c"},
	}
	epsGW = []epSpec{
		{addr: "10.9.0.1", net: n1, cluster: cK, loc: "region1/zone1/sub1", labels: lbl("app", "istio-ingressgateway", "istio", "ingressgateway"), tls: true, node: "node-1", sa: "istio-ingressgateway-service-account"},
		{addr: "fd00::9:1", net: n1, cluster: cK, loc: "region1/zone1/sub1", labels: lbl("app", "istio-ingressgateway", "istio", "ingressgateway"), tls: true, node: "node-1", sa: "istio-ingressgateway-service-account"},
	}
)

func worldGateways(o worldOpts) []model.NetworkGateway {
	if !o.Gateways {
		return nil
	}
	var hb uint32
	if o.HBONEGws {
		hb = 15008
	}
	return []model.NetworkGateway{
		{Network: n2, Cluster: c2, Addr: "172.16.2.1", Port: 15443, HBONEPort: hb},
		{Network: n2, Cluster: c2, Addr: "2001:db8::2:1", Port: 15443, HBONEPort: hb},
		{Network: n3, Cluster: c3, Addr: "2001:db8::3:1", Port: 15443, HBONEPort: hb},
	}
}

// flag is a feature-flag override for the duration of one configuration (the harness is single
// threaded; these are the package variables the environment variables of istiod are read into).
type flag struct {
	Name string
	Set  func() (restore func())
}

func boolFlag(name string, p *bool, v bool) flag {
	return flag{Name: fmt.Sprintf("%s=%v", name, v), Set: func() func() {
		old := *p
		*p = v
		return func() { *p = old }
	}}
}

// cfg is one configuration of the set.
type cfg struct {
	Name     string
	Family   string
	Base     string // sidecar | router
	YAML     string
	Mesh     func(m *meshconfig.MeshConfig)
	Flags    []flag
	World    worldOpts
	Secrets  bool
	BaseEdit func(n *nodeSpec)
}

func (c *cfg) meshConfig() *meshconfig.MeshConfig {
	m := mesh.DefaultMeshConfig()
	m.RootNamespace = "istio-system"
	if c.Mesh != nil {
		c.Mesh(m)
	}
	return m
}

// baseVariants: other starting points for the single-attribute edits (thorough tier): the same
// workload seen from the remote cluster / network / region, with both IP families, with IPv6 only.
var baseVariants = []struct {
	Name string
	Edit func(n *nodeSpec)
}{
	{"default", func(*nodeSpec) {}},
	{"remote", func(n *nodeSpec) {
		n.Meta.ClusterID, n.Meta.Network, n.Meta.NodeName = c2, n2, "node-3"
		n.Loc = localityOf("region2/zone3/sub3")
		n.Meta.Labels["version"] = "v2"
	}},
	{"dual-stack", func(n *nodeSpec) { n.Meta.InstanceIPs = []string{n.V4, n.V6} }},
	{"ipv6", func(n *nodeSpec) { n.Meta.InstanceIPs = []string{n.V6} }},
}

func (c *cfg) baseSpecOf(variant string) *nodeSpec {
	n := c.baseSpec()
	for _, v := range baseVariants {
		if v.Name == variant {
			v.Edit(n)
			return n
		}
	}
	if variant != "" {
		panic("unknown base variant " + variant)
	}
	return n
}

func (c *cfg) baseSpec() *nodeSpec {
	pc := proto.Clone(c.meshConfig().GetDefaultConfig()).(*meshconfig.ProxyConfig)
	var n *nodeSpec
	switch c.Base {
	case "router":
		n = &nodeSpec{
			Type: "router", ID: "istio-ingressgateway-1.istio-system", Domain: "istio-system.svc.cluster.local", V4: "10.9.0.1", V6: "fd00::9:1",
			Meta: &model.NodeMetadata{
				IstioVersion: "1.29.0", Namespace: "istio-system",
				Labels:      map[string]string{"app": "istio-ingressgateway", "istio": "ingressgateway"},
				InstanceIPs: []string{"10.9.0.1"}, ClusterID: cK, Network: n1,
				ServiceAccount: "istio-ingressgateway-service-account", NodeName: "node-1", WorkloadName: "istio-ingressgateway",
			},
		}
	default:
		n = &nodeSpec{
			Type: "sidecar", ID: "app-a-1.default", Domain: "default.svc.cluster.local", V4: "10.1.0.1", V6: "fd00::1:1",
			Meta: &model.NodeMetadata{
				IstioVersion: "1.29.0", Namespace: "default",
				Labels:      map[string]string{"app": "a", "version": "v1"},
				InstanceIPs: []string{"10.1.0.1"}, ClusterID: cK, Network: n1,
				ServiceAccount: "sa-a", NodeName: "node-1", WorkloadName: "app-a",
			},
		}
	}
	n.Loc = localityOf("region1/zone1/sub1")
	n.Meta.ProxyConfig = (*model.NodeMetaProxyConfig)(pc)
	n.Extra = map[string]any{}
	n.Ident = "derived"
	if c.BaseEdit != nil {
		c.BaseEdit(n)
	}
	return n
}

// ---- server ----

type server struct {
	t *testing.T
	s *xdsfake.FakeDiscoveryServer
}

func repoFile(rel string) []byte {
	root := os.Getenv("VERIF_REPO")
	if root == "" {
		root = "/repo"
	}
	b, err := os.ReadFile(filepath.Join(root, rel))
	if err != nil {
		panic(err)
	}
	return b
}

func secretObjects() []runtime.Object {
	mk := func(ns, name string, data map[string][]byte) *corev1.Secret {
		return &corev1.Secret{ObjectMeta: metav1.ObjectMeta{Name: name, Namespace: ns}, Data: data}
	}
	cert := repoFile("tests/testdata/certs/default/cert-chain.pem")
	key := repoFile("tests/testdata/certs/default/key.pem")
	dcert := repoFile("tests/testdata/certs/dns/cert-chain.pem")
	dkey := repoFile("tests/testdata/certs/dns/key.pem")
	droot := repoFile("tests/testdata/certs/dns/root-cert.pem")
	return []runtime.Object{
		mk("istio-system", "gw-cred", map[string][]byte{"cert": cert, "key": key}),
		mk("istio-system", "gw-mtls", map[string][]byte{"cert": dcert, "key": dkey, "cacert": droot}),
		mk("istio-system", "egress-cred", map[string][]byte{"cert": dcert, "key": dkey, "cacert": droot}),
		mk("default", "gw-cred", map[string][]byte{"cert": dcert, "key": dkey}),
		mk("default", "egress-cred", map[string][]byte{"cert": cert, "key": key, "cacert": droot}),
		mk("other", "gw-cred", map[string][]byte{"cert": dcert, "key": dkey}),
	}
}

func newServer(t *testing.T, c *cfg) *server {
	model.VerifResetJwksChannels()
	opts := xdsfake.FakeOptions{
		ConfigString:               c.YAML,
		MeshConfig:                 c.meshConfig(),
		DebounceTime:               debounce,
		Services:                   worldServices(c.World),
		Gateways:                   worldGateways(c.World),
		DisableSecretAuthorization: true,
	}
	if c.Secrets {
		opts.KubernetesObjects = secretObjects()
	}
	s := xdsfake.NewFakeDiscoveryServer(t, opts)
	srv := &server{t: t, s: s}
	// endpoints: one shard per cluster, as the per-cluster Kubernetes registries would produce
	var policy model.EndpointDiscoverabilityPolicy
	if c.World.SameCluster {
		policy = model.DiscoverableFromSameCluster
	}
	s.MemRegistry.ClusterID = cK
	for _, svc := range s.MemRegistry.Services() {
		var specs []epSpec
		var pol model.EndpointDiscoverabilityPolicy
		switch svc.Attributes.Name {
		case "a":
			specs = epsA
		case "b":
			specs = epsB
		case "c":
			specs, pol = epsC, policy
		case "istio-ingressgateway":
			specs = epsGW
		}
		byCluster := endpointsOf(svc, specs, pol)
		for _, cl := range []string{cK, c2, c3} {
			eps := byCluster[cl]
			if len(eps) == 0 {
				continue
			}
			if cl == cK {
				// also makes the proxies' own addresses resolvable to service targets
				s.MemRegistry.SetEndpoints(string(svc.Hostname), svc.Attributes.Namespace, eps)
			} else {
				s.Discovery.EDSUpdate(model.ShardKey{Cluster: istiocluster.ID(cl), Provider: provider.Mock}, string(svc.Hostname), svc.Attributes.Namespace, eps)
			}
		}
	}
	s.Discovery.ConfigUpdate(&model.PushRequest{Forced: true, Reason: model.NewReasonStats(model.GlobalUpdate)})
	srv.settle()
	return srv
}

// settle: every notification has reached the debouncer and every debounced push is committed.
func (s *server) settle() {
	d := s.s.Discovery
	for i := 0; i < 200; i++ {
		synctest.Wait()
		before := d.InboundUpdates.Load()
		time.Sleep(time.Second)
		synctest.Wait()
		if d.InboundUpdates.Load() != before {
			continue
		}
		if d.CommittedUpdates.Load() >= d.InboundUpdates.Load() {
			return
		}
		time.Sleep(debounce)
	}
	panic("settle: the control plane does not quiesce")
}

func (s *server) proxy(n *nodeSpec) (*model.Proxy, error) {
	node, ids, err := n.node()
	if err != nil {
		return nil, err
	}
	return s.s.Discovery.VerifInitProxy(node, ids)
}

// response of one xDS type: resources by name.
type response struct {
	Res    map[string]*discovery.Resource
	Order  []string
	Info   string // the generator's log details ("cached:h/n")
	Err    string
	Hits   int
	Lookup int
}

type answers struct {
	By map[string]*response // CDS, EDS, RDS, SDS
}

// names a proxy subscribes to, derived from its own (cache-free) CDS and LDS.
type subscription struct {
	EDS, RDS, SDS []string
}

var typeURLs = map[string]string{"CDS": v3.ClusterType, "EDS": v3.EndpointType, "RDS": v3.RouteType, "SDS": v3.SecretType, "LDS": v3.ListenerType}

var xdsTypes = []string{"CDS", "EDS", "RDS", "SDS"}

func parseCached(info string) (hits, lookups int) {
	i := strings.Index(info, "cached:")
	if i < 0 {
		return 0, 0
	}
	fmt.Sscanf(info[i:], "cached:%d/%d", &hits, &lookups)
	return
}

func (s *server) generate(p *model.Proxy, typ string, names []string) (r *response) {
	r = &response{Res: map[string]*discovery.Resource{}}
	defer func() {
		if e := recover(); e != nil {
			r.Err = fmt.Sprintf("panic: %v", e)
		}
	}()
	w := &model.WatchedResource{TypeUrl: typeURLs[typ], ResourceNames: sets.New(names...)}
	req := &model.PushRequest{Push: s.s.PushContext(), Forced: true, Start: time.Now(), Reason: model.NewReasonStats(model.ProxyRequest)}
	res, info, err := s.s.Discovery.VerifGenerate(p, w, req)
	if err != nil {
		r.Err = err.Error()
	}
	r.Info = info.AdditionalInfo
	r.Hits, r.Lookup = parseCached(r.Info)
	for i, x := range res {
		name := x.Name
		if _, dup := r.Res[name]; dup {
			name = fmt.Sprintf("%s#%d", name, i)
		}
		r.Res[name] = x
		r.Order = append(r.Order, name)
	}
	return r
}

// subscribe computes what the proxy asks for from a cache-free CDS and LDS.
func (s *server) subscribe(p *model.Proxy, cds *response) subscription {
	var sub subscription
	eds, sds, rds := sets.New[string](), sets.New[string](), sets.New[string]()
	for _, name := range cds.Order {
		c := &cluster.Cluster{}
		if err := cds.Res[name].Resource.UnmarshalTo(c); err != nil {
			continue
		}
		if c.GetType() == cluster.Cluster_EDS {
			n := c.GetEdsClusterConfig().GetServiceName()
			if n == "" {
				n = c.Name
			}
			eds.Insert(n)
		}
		collect(c.ProtoReflect(), sds, rds)
	}
	if p.Metadata.EnableSelfDiscovery {
		eds.Insert("local_cluster")
	}
	lds := s.generate(p, "LDS", nil)
	for _, name := range lds.Order {
		m, err := lds.Res[name].Resource.UnmarshalNew()
		if err != nil {
			continue
		}
		collect(m.ProtoReflect(), sds, rds)
	}
	sub.EDS, sub.RDS, sub.SDS = sets.SortedList(eds), sets.SortedList(rds), sets.SortedList(sds)
	return sub
}

// collect walks a message (opening google.protobuf.Any payloads) and gathers SDS secret names that
// istiod serves and RDS route names.
func collect(m protoreflect.Message, sds, rds sets.Set[string]) {
	switch m.Descriptor().FullName() {
	case "envoy.extensions.transport_sockets.tls.v3.SdsSecretConfig":
		n := m.Get(m.Descriptor().Fields().ByName("name")).String()
		if strings.Contains(n, "://") {
			sds.Insert(n)
		}
	case "envoy.extensions.filters.network.http_connection_manager.v3.Rds":
		rds.Insert(m.Get(m.Descriptor().Fields().ByName("route_config_name")).String())
	case "google.protobuf.Any":
		a, ok := m.Interface().(*anypb.Any)
		if !ok {
			return
		}
		inner, err := a.UnmarshalNew()
		if err == nil {
			collect(inner.ProtoReflect(), sds, rds)
		}
		return
	}
	m.Range(func(fd protoreflect.FieldDescriptor, v protoreflect.Value) bool {
		if fd.Kind() != protoreflect.MessageKind && fd.Kind() != protoreflect.GroupKind {
			return true
		}
		switch {
		case fd.IsList():
			l := v.List()
			for i := 0; i < l.Len(); i++ {
				collect(l.Get(i).Message(), sds, rds)
			}
		case fd.IsMap():
			if fd.MapValue().Kind() == protoreflect.MessageKind {
				v.Map().Range(func(_ protoreflect.MapKey, mv protoreflect.Value) bool {
					collect(mv.Message(), sds, rds)
					return true
				})
			}
		default:
			collect(v.Message(), sds, rds)
		}
		return true
	})
}

// all generates the four cached types for a proxy with the given subscription, in the order a proxy
// asks for them.
func (s *server) all(p *model.Proxy, sub subscription, cds *response) *answers {
	a := &answers{By: map[string]*response{}}
	if cds == nil {
		cds = s.generate(p, "CDS", nil)
	}
	a.By["CDS"] = cds
	a.By["EDS"] = s.generate(p, "EDS", sub.EDS)
	a.By["RDS"] = s.generate(p, "RDS", sub.RDS)
	if len(sub.SDS) > 0 {
		a.By["SDS"] = s.generate(p, "SDS", sub.SDS)
	} else {
		a.By["SDS"] = &response{Res: map[string]*discovery.Resource{}}
	}
	return a
}

func (s *server) clearCache() {
	s.s.Discovery.Cache.ClearAll()
	// the next generation starts strictly after the invalidation, as a push that follows it would
	time.Sleep(time.Millisecond)
}

// ---- comparison ----

var textOpts = prototext.MarshalOptions{Multiline: true, Indent: " ", Resolver: protoregistry.GlobalTypes}

func canon(r *discovery.Resource) string {
	if r == nil || r.Resource == nil {
		return "<nil>"
	}
	m, err := r.Resource.UnmarshalNew()
	if err != nil {
		return fmt.Sprintf("%s:%x", r.Resource.TypeUrl, r.Resource.Value)
	}
	return textOpts.Format(m)
}

func sameResource(a, b *discovery.Resource) (same bool, bytesOnly bool) {
	if a == b {
		return true, false
	}
	if a == nil || b == nil {
		return false, false
	}
	if a.Name == b.Name && a.Resource.GetTypeUrl() == b.Resource.GetTypeUrl() && string(a.Resource.GetValue()) == string(b.Resource.GetValue()) {
		return true, false
	}
	if a.Name == b.Name && canon(a) == canon(b) {
		return true, true
	}
	return false, false
}

// diffResponses returns the names of resources that differ between two answers of one type (a
// resource present on one side only differs), and how many were byte-different but equal after
// canonical re-marshalling.
func diffResponses(x, y *response) (names []string, bytesOnly int) {
	if x.Err != y.Err {
		names = append(names, "<error>")
	}
	seen := map[string]bool{}
	for _, n := range x.Order {
		seen[n] = true
		same, bo := sameResource(x.Res[n], y.Res[n])
		if !same {
			names = append(names, n)
		}
		if bo {
			bytesOnly++
		}
	}
	for _, n := range y.Order {
		if !seen[n] {
			names = append(names, n)
		}
	}
	sort.Strings(names)
	return names, bytesOnly
}

// firstDiff describes where two canonical texts part.
func firstDiff(a, b string) string {
	la, lb := strings.Split(a, "\n"), strings.Split(b, "\n")
	for i := 0; i < len(la) || i < len(lb); i++ {
		var x, y string
		if i < len(la) {
			x = la[i]
		}
		if i < len(lb) {
			y = lb[i]
		}
		if x != y {
			lo := i - 3
			if lo < 0 {
				lo = 0
			}
			ctx := strings.Join(la[lo:min(i, len(la))], " | ")
			return fmt.Sprintf("line %d after [%s]: served %q, fresh %q", i+1, strings.Join(strings.Fields(ctx), " "), strings.TrimSpace(x), strings.TrimSpace(y))
		}
	}
	return "no textual difference"
}

func localityOf(s string) *core.Locality {
	p := strings.Split(s, "/")
	l := &core.Locality{}
	if len(p) > 0 {
		l.Region = p[0]
	}
	if len(p) > 1 {
		l.Zone = p[1]
	}
	if len(p) > 2 {
		l.SubZone = p[2]
	}
	return l
}
