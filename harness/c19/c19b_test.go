// C19 (b): idempotence of injection and preservation of what the user wrote, on the product of a
// pod-spec alphabet and the shipped pod templates, through the real /inject handler: the pod is
// submitted, the returned JSON patch applied (as the API server does), the result submitted again.
package c19

import (
	"fmt"
	"sort"
	"strings"
	"testing"

	corev1 "k8s.io/api/core/v1"
	"k8s.io/apimachinery/pkg/api/resource"
	metav1 "k8s.io/apimachinery/pkg/apis/meta/v1"
	"k8s.io/apimachinery/pkg/util/intstr"

	"istio.io/istio/zz_verif/engine"
)

// option is one value of one dimension of the pod-spec alphabet.
type option struct {
	name     string
	thorough bool // only in the thorough tier
	apply    func(p *corev1.Pod)
}

type dimension struct {
	name string
	opts []option
}

func nop(*corev1.Pod) {}

func anno(k, v string) func(p *corev1.Pod) {
	return func(p *corev1.Pod) { p.Annotations[k] = v }
}

func appContainer(p *corev1.Pod) *corev1.Container {
	for i := range p.Spec.Containers {
		if p.Spec.Containers[i].Name == "app" {
			return &p.Spec.Containers[i]
		}
	}
	return nil
}

func httpProbe(path string, port intstr.IntOrString) *corev1.Probe {
	return &corev1.Probe{ProbeHandler: corev1.ProbeHandler{HTTPGet: &corev1.HTTPGetAction{Path: path, Port: port}}, PeriodSeconds: 5, TimeoutSeconds: 2}
}

var restartAlways = corev1.ContainerRestartPolicyAlways

func i64(v int64) *int64 { return &v }

// The dimensions are applied in this order to the base pod (one "app" container). Everything an
// option writes is something a user can put into a pod spec.
var dimsB = []dimension{
	{"template", []option{
		{"default", false, nop}, // no annotation: the configured default template (sidecar)
		{"gateway", false, anno("inject.istio.io/templates", "gateway")},
		{"grpc-simple", false, anno("inject.istio.io/templates", "grpc-simple")},
		{"grpc-agent", false, anno("inject.istio.io/templates", "grpc-agent")},
		{"sidecar", true, anno("inject.istio.io/templates", "sidecar")},
	}},
	{"containers", []option{
		{"1", false, nop},
		{"2", false, func(p *corev1.Pod) {
			p.Spec.Containers = append(p.Spec.Containers, corev1.Container{
				Name: "helper", Image: "registry.example/helper:2", Command: []string{"/helper"}, Args: []string{"--listen", ":7070"},
				Ports: []corev1.ContainerPort{{Name: "udp-x", ContainerPort: 7070, Protocol: corev1.ProtocolUDP}},
			})
		}},
		{"3", true, func(p *corev1.Pod) {
			p.Spec.Containers = append([]corev1.Container{{Name: "aaa-first", Image: "registry.example/first:3"}}, p.Spec.Containers...)
			p.Spec.Containers = append(p.Spec.Containers, corev1.Container{Name: "zzz-last", Image: "registry.example/last:3", Args: []string{"x"}})
			// this shape is also the controller-created one (generateName + ReplicaSet owner => DeploymentMeta differs)
			yes := true
			p.Name = ""
			p.GenerateName = "c19-6b8f7d5c9-"
			p.Labels["pod-template-hash"] = "6b8f7d5c9"
			p.OwnerReferences = []metav1.OwnerReference{{APIVersion: "apps/v1", Kind: "ReplicaSet", Name: "c19-6b8f7d5c9", Controller: &yes, UID: "u"}}
		}},
	}},
	{"init", []option{
		{"none", false, nop},
		{"init", false, func(p *corev1.Pod) {
			p.Spec.InitContainers = append(p.Spec.InitContainers, corev1.Container{Name: "setup", Image: "registry.example/setup:1", Command: []string{"sh", "-c", "true"}})
		}},
		{"native", false, func(p *corev1.Pod) {
			p.Spec.InitContainers = append(p.Spec.InitContainers, corev1.Container{
				Name: "logship", Image: "registry.example/logship:1", RestartPolicy: &restartAlways, Args: []string{"--follow"},
				Ports: []corev1.ContainerPort{{Name: "tcp-log", ContainerPort: 5140}},
			})
		}},
		{"init+native", true, func(p *corev1.Pod) {
			p.Spec.InitContainers = append(p.Spec.InitContainers,
				corev1.Container{Name: "setup", Image: "registry.example/setup:1", Command: []string{"sh", "-c", "true"}},
				corev1.Container{Name: "logship", Image: "registry.example/logship:1", RestartPolicy: &restartAlways, Args: []string{"--follow"}})
		}},
	}},
	{"probes", []option{
		{"none", false, nop},
		{"http", false, func(p *corev1.Pod) {
			c := appContainer(p)
			c.ReadinessProbe = httpProbe("/ready", intstr.FromString("http"))
			c.LivenessProbe = httpProbe("/live", intstr.FromInt32(8080))
		}},
		{"http-norewrite", false, func(p *corev1.Pod) {
			c := appContainer(p)
			c.ReadinessProbe = httpProbe("/ready", intstr.FromString("http"))
			c.LivenessProbe = httpProbe("/live", intstr.FromInt32(8080))
			p.Annotations["sidecar.istio.io/rewriteAppHTTPProbers"] = "false"
		}},
		{"tcp+grpc+startup", false, func(p *corev1.Pod) {
			c := appContainer(p)
			c.ReadinessProbe = &corev1.Probe{ProbeHandler: corev1.ProbeHandler{TCPSocket: &corev1.TCPSocketAction{Port: intstr.FromInt32(9090)}}}
			c.LivenessProbe = &corev1.Probe{ProbeHandler: corev1.ProbeHandler{GRPC: &corev1.GRPCAction{Port: 9090}}}
			c.StartupProbe = httpProbe("/started", intstr.FromInt32(8080))
		}},
		{"lifecycle", true, func(p *corev1.Pod) {
			c := appContainer(p)
			c.ReadinessProbe = httpProbe("/ready", intstr.FromInt32(8080))
			c.Lifecycle = &corev1.Lifecycle{PreStop: &corev1.LifecycleHandler{HTTPGet: &corev1.HTTPGetAction{Path: "/bye", Port: intstr.FromInt32(8080)}}}
		}},
	}},
	{"proxy", []option{
		{"none", false, nop},
		{"auto-first", false, func(p *corev1.Pod) { // the documented customisation: a user-written istio-proxy container
			p.Spec.Containers = append([]corev1.Container{{
				Name: "istio-proxy", Image: "auto",
				Resources: corev1.ResourceRequirements{Requests: corev1.ResourceList{corev1.ResourceCPU: resource.MustParse("250m")}},
				Env:       []corev1.EnvVar{{Name: "C19_USER_ENV", Value: "kept"}},
				Ports:     []corev1.ContainerPort{{Name: "tcp-extra", ContainerPort: 15099, Protocol: corev1.ProtocolTCP}}, // e.g. a gateway's listener port
			}}, p.Spec.Containers...)
		}},
		{"auto-last", true, func(p *corev1.Pod) {
			p.Spec.Containers = append(p.Spec.Containers, corev1.Container{
				Name: "istio-proxy", Image: "auto",
				Resources: corev1.ResourceRequirements{Limits: corev1.ResourceList{corev1.ResourceMemory: resource.MustParse("300Mi")}},
			})
		}},
		{"image+uid", false, func(p *corev1.Pod) {
			p.Spec.Containers = append(p.Spec.Containers, corev1.Container{
				Name: "istio-proxy", Image: "registry.example/custom-proxy:9",
				SecurityContext: &corev1.SecurityContext{RunAsUser: i64(4321), RunAsGroup: i64(4321)},
			})
		}},
	}},
	{"overrides", []option{
		{"none", false, nop},
		{"annotation", false, anno("proxy.istio.io/overrides", `{"containers":[{"name":"istio-proxy","image":"auto","resources":{"requests":{"memory":"77Mi"}}}]}`)},
	}},
	{"volumes", []option{
		{"none", false, nop},
		{"2", false, func(p *corev1.Pod) {
			p.Spec.Volumes = append(p.Spec.Volumes,
				corev1.Volume{Name: "zz-data", VolumeSource: corev1.VolumeSource{EmptyDir: &corev1.EmptyDirVolumeSource{}}},
				corev1.Volume{Name: "aa-config", VolumeSource: corev1.VolumeSource{ConfigMap: &corev1.ConfigMapVolumeSource{LocalObjectReference: corev1.LocalObjectReference{Name: "app-config"}}}})
			c := appContainer(p)
			c.VolumeMounts = append(c.VolumeMounts, corev1.VolumeMount{Name: "zz-data", MountPath: "/data"}, corev1.VolumeMount{Name: "aa-config", MountPath: "/etc/app"})
		}},
	}},
	{"hostNetwork", []option{
		{"false", false, nop},
		{"true", false, func(p *corev1.Pod) { p.Spec.HostNetwork = true }},
	}},
	{"prometheus", []option{
		{"none", false, nop},
		{"scrape", true, func(p *corev1.Pod) {
			p.Annotations["prometheus.io/scrape"] = "true"
			p.Annotations["prometheus.io/port"] = "9090"
			p.Annotations["prometheus.io/path"] = "/metrics"
		}},
	}},
	{"statusport", []option{
		{"default", false, nop},
		// the pod picks its own agent status port: rewritten probes then point at 15030, not at the mesh-wide 15020
		{"15030", false, anno("status.sidecar.istio.io/port", "15030")},
	}},
	{"proxyconfig", []option{
		{"none", false, nop},
		{"hold", true, anno("proxy.istio.io/config", "holdApplicationUntilProxyStarts: true")},
		{"tproxy", true, anno("sidecar.istio.io/interceptionMode", "TPROXY")},
		{"no-intercept", true, anno("sidecar.istio.io/interceptionMode", "NONE")},
	}},
}

// nativeModes is the last dimension: how native sidecar support is switched.
var nativeModes = []struct {
	name     string
	thorough bool
	flag     bool
	anno     string
}{
	{"off", false, false, ""},
	{"on", false, true, ""},
	{"off+annotation-true", true, false, "true"},
	{"on+annotation-false", true, true, "false"},
}

type caseB struct {
	Choice map[string]string `json:"choice"` // dimension -> option name
}

func (c caseB) String() string {
	var ks []string
	for k := range c.Choice {
		ks = append(ks, k)
	}
	sort.Strings(ks)
	var s []string
	for _, k := range ks {
		s = append(s, k+"="+c.Choice[k])
	}
	return strings.Join(s, " ")
}

// shape is the case without the dimensions that do not change which code runs on re-injection much;
// used only to group violation keys.
func (c caseB) template() string { return c.Choice["template"] }

func buildPod(c caseB) (*corev1.Pod, bool, error) {
	p := &corev1.Pod{
		TypeMeta: metav1.TypeMeta{APIVersion: "v1", Kind: "Pod"},
		ObjectMeta: metav1.ObjectMeta{
			Name: "c19", Namespace: "c19-app", Labels: map[string]string{"app": "c19", "version": "v7"},
			Annotations: map[string]string{"c19.verif/note": "user annotation"},
		},
		Spec: corev1.PodSpec{
			ServiceAccountName: "c19-sa",
			Containers: []corev1.Container{{
				Name: "app", Image: "registry.example/app:1", Command: []string{"/app"}, Args: []string{"--port=8080", "--verbose"},
				Ports: []corev1.ContainerPort{{Name: "http", ContainerPort: 8080, Protocol: corev1.ProtocolTCP}, {Name: "tcp-admin", ContainerPort: 9090}},
			}},
		},
	}
	for _, d := range dimsB {
		name, ok := c.Choice[d.name]
		if !ok { // replay recorded before the dimension existed: its first option is the neutral one
			name = d.opts[0].name
		}
		found := false
		for _, o := range d.opts {
			if o.name == name {
				o.apply(p)
				found = true
			}
		}
		if !found {
			return nil, false, fmt.Errorf("unknown option %s=%s", d.name, name)
		}
	}
	for _, m := range nativeModes {
		if m.name == c.Choice["native"] {
			if m.anno != "" {
				p.Annotations["sidecar.istio.io/nativeSidecar"] = m.anno
			}
			return p, m.flag, nil
		}
	}
	return nil, false, fmt.Errorf("unknown native mode %q", c.Choice["native"])
}

// summarise turns the list of differing paths into a short, stable shape for the violation key: which
// container (in whichever list) and which of its top-level fields / named env entries changed, or which
// other top-level item.
func summarise(paths []string) string {
	seen := map[string]bool{}
	var out []string
	for _, p := range paths {
		parts := strings.Split(strings.TrimPrefix(p, "/"), "/")
		if i := strings.Index(parts[len(parts)-1], " ("); i >= 0 {
			parts[len(parts)-1] = parts[len(parts)-1][:i]
		}
		s := ""
		switch {
		case len(parts) >= 2 && parts[0] == "spec" && (strings.HasPrefix(parts[1], "containers[") || strings.HasPrefix(parts[1], "initContainers[")):
			s = "container" + parts[1][strings.Index(parts[1], "["):]
			if len(parts) >= 3 { // and which part of it: .resources, .image, .env[ISTIO_META_POD_PORTS], ...
				s += "." + parts[2]
			}
		case len(parts) >= 2 && parts[0] == "spec" && (parts[1] == "containers" || parts[1] == "initContainers"):
			s = "container order"
		case len(parts) > 3:
			s = strings.Join(parts[:3], "/")
		default:
			s = strings.Join(parts, "/")
		}
		if !seen[s] {
			seen[s] = true
			out = append(out, s)
		}
	}
	sort.Strings(out)
	if len(out) > 6 {
		out = append(out[:6], fmt.Sprintf("+%d more", len(out)-6))
	}
	return strings.Join(out, ", ")
}

// customised tells whether the user customised the injected proxy (own istio-proxy container or the
// overrides annotation); part of the violation key because it separates root causes.
func (c caseB) customised() string {
	var how []string
	if c.Choice["proxy"] != "none" {
		how = append(how, "container")
	}
	if c.Choice["overrides"] != "none" {
		how = append(how, "annotation")
	}
	if len(how) == 0 {
		return "no"
	}
	return strings.Join(how, "+")
}

type runnerB struct {
	t  *testing.T
	wh *webhook
}

// inject submits the pod once and applies the answer. injected=false: the webhook left the pod alone.
func (r *runnerB) inject(podJSON []byte) (out []byte, ops int, failure string) {
	a, err := r.wh.admit(podJSON, "c19-app", "v1")
	switch {
	case err != nil:
		return nil, 0, err.Error()
	case a.Panic != "":
		return nil, 0, a.Panic
	case a.HTTPStatus != 200:
		return nil, 0, fmt.Sprintf("HTTP %d %s", a.HTTPStatus, a.Message)
	case !a.Allowed || a.Message != "":
		return nil, 0, fmt.Sprintf("allowed=%v: %s", a.Allowed, a.Message)
	case a.Patch == nil:
		return podJSON, 0, ""
	}
	out, err = applyPatch(podJSON, a.Patch)
	if err != nil {
		return nil, 0, "patch does not apply to the submitted object: " + err.Error()
	}
	return out, patchOps(a.Patch), ""
}

func errClass(msg string) string {
	if strings.HasPrefix(msg, "panic: ") {
		if i := strings.LastIndex(msg, " at "); i > 0 {
			return "panic at" + msg[i+3:]
		}
		return msg
	}
	// "allowed=false: failed to process pod: invalid prometheus scrape configuration: port ..." -> keep the
	// first two segments of the webhook's message, without concrete values
	msg = strings.TrimPrefix(msg, "allowed=false: ")
	seg := strings.Split(msg, ":")
	if len(seg) > 2 {
		seg = seg[:2]
	}
	msg = strings.TrimSpace(strings.Join(seg, ":"))
	if len(msg) > 90 {
		msg = msg[:90]
	}
	return msg
}

func (r *runnerB) check(res *engine.Result, c caseB, recheck, verbose bool) {
	pod0, native, err := buildPod(c)
	if err != nil {
		r.t.Fatal(err)
	}
	setNative(native)
	res.Evaluations++
	in := mustJSON(pod0)
	tpl := c.template()

	out1, ops1, fail := r.inject(in)
	if fail != "" {
		res.Outcome("first injection failed")
		res.Violate("inject-error first: "+errClass(fail), fmt.Sprintf("first injection (template %s) failed: %s; case: %s", tpl, fail, c), c)
		return
	}
	if recheck {
		again, _, _ := r.inject(in)
		if canonical(again) != canonical(out1) {
			res.Infra = "same pod injected twice from scratch gives different results: " + c.String()
			return
		}
	}
	if pod0.Spec.HostNetwork {
		if ops1 != 0 {
			res.Violate("hostNetwork-pod-patched template="+tpl, "a hostNetwork pod was patched; case: "+c.String(), c)
		}
		res.Outcome("not injected (hostNetwork)")
		return
	}
	if ops1 == 0 {
		res.Outcome("not injected")
		res.Violate("not-injected template="+tpl, "policy is enabled and nothing opts out, yet the webhook returned no patch; case: "+c.String(), c)
		return
	}
	res.Count("injections", 1)
	res.NontrivialCase(c.String())
	pod1, err := decodePod(out1)
	if err != nil {
		res.Violate("undecodable-result template="+tpl, err.Error()+"; case: "+c.String(), c)
		return
	}
	if _, ok := pod1.Annotations["sidecar.istio.io/status"]; !ok {
		res.Violate("no-status-annotation template="+tpl, "injected pod carries no sidecar.istio.io/status; case: "+c.String(), c)
	}
	if verbose {
		r.t.Logf("case %s\ninput  %s\nonce   %s", c, in, canonical(out1))
	}
	for _, is := range checkPreserved(pod0, pod1) {
		res.Violate(fmt.Sprintf("preserve template=%s %s", tpl, is.Kind), fmt.Sprintf("after one injection: %s; case: %s", is.Detail, c), c)
	}

	// the API server calls the webhook again (reinvocationPolicy, or a re-created pod from an injected template)
	out2, ops2, fail := r.inject(out1)
	if fail != "" {
		res.Outcome("re-injection failed")
		res.Violate("inject-error second: "+errClass(fail), fmt.Sprintf("injecting the injected pod (template %s) failed: %s; case: %s", tpl, fail, c), c)
		return
	}
	res.Count("re-injections", 1)
	if verbose {
		r.t.Logf("twice  %s", canonical(out2))
	}
	if canonical(out2) == canonical(out1) {
		if ops2 == 0 {
			res.Outcome("injected; second patch empty")
		} else {
			res.Outcome("injected; second patch is a no-op")
		}
	} else {
		res.Outcome("injected; second patch CHANGES the pod")
		d := diffDocs(out1, out2)
		// where the failures sit, for the write-up
		res.Count(fmt.Sprintf("not_idempotent[template=%s]", tpl), 1)
		res.Count(fmt.Sprintf("not_idempotent[proxy=%s overrides=%s native=%s]", c.Choice["proxy"], c.Choice["overrides"], c.Choice["native"]), 1)
		res.Violate(fmt.Sprintf("not-idempotent user-customised-proxy=%s changed: %s", c.customised(), summarise(d)),
			fmt.Sprintf("inject(inject(pod)) != inject(pod) under template %s; second patch has %d ops; differing paths: %s; case: %s", tpl, ops2, strings.Join(d, "; "), c), c)
	}
	if pod2, err := decodePod(out2); err == nil {
		for _, is := range checkPreserved(pod0, pod2) {
			res.Violate(fmt.Sprintf("preserve template=%s %s (after re-injection)", tpl, is.Kind), fmt.Sprintf("after two injections: %s; case: %s", is.Detail, c), c)
		}
	}
}

func TestC19b(t *testing.T) {
	env := engine.GetEnv()
	res := engine.NewResult("C19", "b-idempotence")
	res.Rule = "every combination of the pod-spec alphabet (template annotation, user containers, init / native-sidecar containers, probes and rewrite, user-written istio-proxy, overrides annotation, volumes, hostNetwork, prometheus annotations, status port annotation, interception / hold settings, native-sidecar mode) submitted to the real /inject handler configured from the shipped chart, the patch applied, the result submitted again; non-trivial = the webhook actually injected, so re-injection and preservation are exercised"
	defer res.Write(t, env)
	s := loadShipped(t)
	r := &runnerB{t: t, wh: newWebhook(t, s, s.config(t))}
	defer setNative(false)
	globals := injectorGlobals()
	defer func() { assertGlobalsUnchanged(res, globals, "the whole run", nil) }()

	if env.Replay != "" {
		var c caseB
		if err := engine.ReadReplay(env.Replay, &c); err != nil {
			t.Fatal(err)
		}
		r.check(res, c, true, true)
		return
	}
	type dimv struct {
		name string
		opts []string
	}
	var dv []dimv
	for _, d := range dimsB {
		x := dimv{name: d.name}
		for _, o := range d.opts {
			if !o.thorough || env.Thorough() {
				x.opts = append(x.opts, o.name)
			}
		}
		dv = append(dv, x)
	}
	nm := dimv{name: "native"}
	for _, m := range nativeModes {
		if !m.thorough || env.Thorough() {
			nm.opts = append(nm.opts, m.name)
		}
	}
	dv = append(dv, nm)
	dims := make([]int, len(dv))
	total := int64(1)
	alpha := map[string]any{}
	for i, d := range dv {
		dims[i] = len(d.opts)
		total *= int64(len(d.opts))
		alpha[d.name] = d.opts
	}
	res.Bounds["cases_total"] = total
	res.Bounds["alphabet"] = alpha
	res.Bounds["templates_sha256"] = s.digests
	var mine int64
	engine.Product(dims, func(ord int64, idx []int) bool {
		if !env.Mine(ord) {
			return true
		}
		if env.Expired() {
			res.Cap(fmt.Sprintf("deadline at case %d/%d", ord, total))
			return false
		}
		c := caseB{Choice: map[string]string{}}
		for i, d := range dv {
			c.Choice[d.name] = d.opts[idx[i]]
		}
		r.check(res, c, mine%8 == 0, false)
		if res.Infra != "" {
			return false
		}
		if mine%211 == 0 {
			res.Sample(c.String())
		}
		mine++
		return true
	})
}
