// C19 (a): the complete injection decision table, through injectRequired and through the webhook's
// /inject HTTP handler, against the reference cascade R10 (oracle_test.go).
package c19

import (
	"encoding/json"
	"fmt"
	"strings"
	"testing"

	corev1 "k8s.io/api/core/v1"
	metav1 "k8s.io/apimachinery/pkg/apis/meta/v1"

	"istio.io/istio/pkg/kube/inject"
	"istio.io/istio/zz_verif/engine"
)

const (
	injectKey   = "sidecar.istio.io/inject" // label and annotation share the key
	neverLabel  = "c19.verif/never"
	alwaysLabel = "c19.verif/always"
)

type alphabetA struct {
	hostNet     []bool
	namespaces  [][2]string // namespace, nsVia
	labels      []string
	annotations []string
	never       []string
	always      []string
	podLabels   []string
	policies    []string
	apis        []string
}

func alphabetForA(thorough bool) alphabetA {
	a := alphabetA{
		hostNet:     []bool{false, true},
		namespaces:  [][2]string{{"c19-app", "pod"}, {"default", "pod"}, {"kube-system", "pod"}, {"kube-system", "request"}},
		labels:      []string{absent, "true", "false", "maybe"},
		annotations: []string{absent, "true", "false", "maybe"},
		never:       []string{"matchLabels", "doesNotExist", "notIn"},
		always:      []string{"matchLabels", "doesNotExist", "notIn"},
		podLabels:   []string{"app", "app+never", "app+always", "app+never+always", "nil", "empty"},
		policies:    []string{"enabled", "disabled", "off"},
		apis:        []string{"v1"},
	}
	if thorough {
		a.namespaces = append(a.namespaces, [2]string{"kube-public", "pod"}, [2]string{"kube-node-lease", "pod"},
			[2]string{"local-path-storage", "pod"}, [2]string{"c19-app", "request"}, [2]string{"kube-public", "request"})
		a.labels = append(a.labels, "", "True", "yes")
		a.annotations = append(a.annotations, "", "True", "yes")
		a.never = append(a.never, "unset", "exists")
		a.always = append(a.always, "unset", "exists")
		a.policies = append(a.policies, "", "always")
		a.apis = append(a.apis, "v1beta1")
	}
	return a
}

func (a alphabetA) dims() []int {
	return []int{len(a.hostNet), len(a.namespaces), len(a.labels), len(a.annotations), len(a.never), len(a.always), len(a.podLabels), len(a.policies), len(a.apis)}
}

func (a alphabetA) cell(idx []int) cell {
	return cell{
		HostNetwork: a.hostNet[idx[0]], Namespace: a.namespaces[idx[1]][0], NsVia: a.namespaces[idx[1]][1],
		Label: a.labels[idx[2]], Annotation: a.annotations[idx[3]], Never: a.never[idx[4]], Always: a.always[idx[5]],
		PodLabels: a.podLabels[idx[6]], Policy: a.policies[idx[7]], APIVersion: a.apis[idx[8]],
	}
}

func selectorFor(form, key string) []metav1.LabelSelector {
	switch form {
	case "matchLabels":
		return []metav1.LabelSelector{{MatchLabels: map[string]string{key: "yes"}}}
	case "exists":
		return []metav1.LabelSelector{{MatchExpressions: []metav1.LabelSelectorRequirement{{Key: key, Operator: metav1.LabelSelectorOpExists}}}}
	case "doesNotExist":
		return []metav1.LabelSelector{{MatchExpressions: []metav1.LabelSelectorRequirement{{Key: key, Operator: metav1.LabelSelectorOpDoesNotExist}}}}
	case "notIn":
		return []metav1.LabelSelector{{MatchExpressions: []metav1.LabelSelectorRequirement{{Key: key, Operator: metav1.LabelSelectorOpNotIn, Values: []string{"no", "off"}}}}}
	}
	return nil // unset
}

// podFor builds the pod of a cell. podLabels=nil gives a pod without a label map (unless the inject
// label itself is set), podLabels=empty an explicitly empty one.
func podFor(c cell) *corev1.Pod {
	p := &corev1.Pod{
		TypeMeta:   metav1.TypeMeta{APIVersion: "v1", Kind: "Pod"},
		ObjectMeta: metav1.ObjectMeta{Name: "c19", Annotations: map[string]string{"c19.verif/note": "decision"}},
		Spec: corev1.PodSpec{
			HostNetwork: c.HostNetwork,
			Containers:  []corev1.Container{{Name: "app", Image: "registry.example/app:1", Ports: []corev1.ContainerPort{{Name: "http", ContainerPort: 8080}}}},
		},
	}
	if m, present := c.otherLabels(); present {
		p.Labels = m
	}
	if c.NsVia == "pod" {
		p.Namespace = c.Namespace
	}
	if c.Label != absent {
		if p.Labels == nil {
			p.Labels = map[string]string{}
		}
		p.Labels[injectKey] = c.Label
	}
	if c.Annotation != absent {
		p.Annotations[injectKey] = c.Annotation
	}
	return p
}

type deciderA struct {
	t        *testing.T
	s        *shipped
	webhooks map[string]*webhook
	configs  map[string]*inject.Config
}

func (d *deciderA) forCell(c cell) (*inject.Config, *webhook) {
	k := c.Policy + "|" + c.Never + "|" + c.Always
	if w, ok := d.webhooks[k]; ok {
		return d.configs[k], w
	}
	cfg := d.s.config(d.t)
	cfg.Policy = inject.InjectionPolicy(c.Policy)
	cfg.NeverInjectSelector = selectorFor(c.Never, neverLabel)
	cfg.AlwaysInjectSelector = selectorFor(c.Always, alwaysLabel)
	d.configs[k] = cfg
	d.webhooks[k] = newWebhook(d.t, d.s, cfg)
	return cfg, d.webhooks[k]
}

// observe runs both real paths once. via injectRequired the namespace always travels in the metadata
// (that is the function's contract; the webhook fills it in from the request before calling it).
func (d *deciderA) observe(c cell) (direct bool, hook string, detail string) {
	cfg, wh := d.forCell(c)
	pod := podFor(c)
	meta := *pod.ObjectMeta.DeepCopy()
	meta.Namespace = c.Namespace
	direct = inject.VerifInjectRequired(inject.IgnoredNamespaces.UnsortedList(), cfg, &pod.Spec, meta)
	podJSON := mustJSON(pod)
	if pod.Labels != nil && len(pod.Labels) == 0 {
		// omitempty drops an empty map; a client can very well send "labels": {}
		var m map[string]any
		if err := json.Unmarshal(podJSON, &m); err != nil {
			d.t.Fatal(err)
		}
		m["metadata"].(map[string]any)["labels"] = map[string]any{}
		podJSON = mustJSON(m)
	}
	r, err := wh.admit(podJSON, c.Namespace, c.APIVersion)
	switch {
	case err != nil:
		return direct, "error", err.Error()
	case r.Panic != "":
		return direct, "error", r.Panic
	case r.HTTPStatus != 200:
		return direct, "error", fmt.Sprintf("HTTP %d %s", r.HTTPStatus, r.Message)
	case !r.Allowed || r.Message != "":
		return direct, "error", fmt.Sprintf("allowed=%v message=%q", r.Allowed, r.Message)
	case r.Patch != nil && patchOps(r.Patch) > 0:
		return direct, "inject", ""
	}
	return direct, "skip", ""
}

func policyClass(p string) string {
	if p == "enabled" || p == "disabled" {
		return p
	}
	return "other"
}

// check evaluates one cell against the oracle and returns what was observed (for the comparison between
// process histories).
func (d *deciderA) check(res *engine.Result, c cell, verbose bool) (observed string) {
	admissible, stage, open := refDecision(c)
	d1, h1, e1 := d.observe(c)
	d2, h2, e2 := d.observe(c)
	res.Evaluations++
	res.Count("webhook_calls", 2)
	if open {
		res.Count("open_cells(two readings admitted)", 1)
	}
	if h1 == "inject" {
		res.Count("cells_injected_by_webhook", 1)
	}
	res.Outcome(fmt.Sprintf("decided-by=%s injectRequired=%s webhook=%s", stage, verdict(d1), h1))
	if precedenceMatters(c) {
		k := c
		k.History = "" // the same cell under another process history is not another non-trivial case
		res.NontrivialCase(k.String())
	}
	observed = fmt.Sprintf("injectRequired=%s webhook=%s", verdict(d1), h1)
	if verbose {
		d.t.Logf("cell %s\n admissible=%v stage=%s open=%v\n injectRequired=%v webhook=%s %s", c, admissible, stage, open, d1, h1, e1)
	}
	if d1 != d2 || h1 != h2 {
		res.Violate("decision-unstable decided-by="+stage, fmt.Sprintf("same inputs, two evaluations: injectRequired %v/%v webhook %s/%s (%s %s) in cell %s", d1, d2, h1, h2, e1, e2, c), c)
		return
	}
	if h1 == "error" {
		res.Violate("webhook-error decided-by="+stage, fmt.Sprintf("webhook did not answer the admission request: %s in cell %s", e1, c), c)
		return
	}
	var want []string
	for _, b := range []bool{true, false} {
		if admissible[b] {
			want = append(want, verdict(b))
		}
	}
	badDirect := !admissible[d1]
	badHook := !admissible[h1 == "inject"]
	if badDirect || badHook {
		var via []string
		got := ""
		if badDirect {
			via = append(via, "injectRequired")
			got = verdict(d1)
		}
		if badHook {
			via = append(via, "webhook")
			got = h1
		}
		key := fmt.Sprintf("decision decided-by=%s policy=%s want=%s got=%s via=%s", stage, policyClass(c.Policy), strings.Join(want, "|"), got, strings.Join(via, "+"))
		res.Violate(key, fmt.Sprintf("the documented cascade decides this cell at stage %q => %s, but injectRequired=%s webhook=%s; cell: %s",
			stage, strings.Join(want, "|"), verdict(d1), h1, c), c)
		return
	}
	if verdict(d1) != h1 {
		res.Violate("decision-paths-disagree decided-by="+stage, fmt.Sprintf("injectRequired=%s but the webhook answered %s for the same inputs; cell: %s", verdict(d1), h1, c), c)
	}
	return observed
}

func TestC19a(t *testing.T) {
	env := engine.GetEnv()
	res := engine.NewResult("C19", "a-decision")
	res.Rule = "every cell of hostNetwork x namespace x inject label x inject annotation x neverInjectSelector form (matchLabels / Exists / DoesNotExist / NotIn / unset) x alwaysInjectSelector form x the pod's other labels (incl. no label map and an empty one) x policy (x AdmissionReview version), each evaluated twice through injectRequired and through the real /inject handler with the shipped sidecar template, the whole table once in the fresh process and once after the namespace controller (which shares inject.IgnoredNamespaces) has been built and run in the same process; the exported package-level state of pkg/kube/inject must stay as it was; non-trivial = at least two stages of the cascade have opinions that differ, so the cell exercises the order"
	defer res.Write(t, env)
	d := &deciderA{t: t, s: loadShipped(t), webhooks: map[string]*webhook{}, configs: map[string]*inject.Config{}}
	setNative(false)

	globals := injectorGlobals()
	res.Bounds["injector_globals_at_start"] = globals

	if env.Replay != "" {
		var c cell
		if err := engine.ReadReplay(env.Replay, &c); err != nil {
			t.Fatal(err)
		}
		c = c.normalise()
		if c.History == historyAfter {
			fresh := c
			fresh.History = historyFresh
			before := d.check(res, fresh, true)
			runCotenants(t)
			assertGlobalsUnchanged(res, globals, historyAfter, c)
			if after := d.check(res, c, true); after != before {
				_, stage, _ := refDecision(c)
				res.Violate("decision-depends-on-process-history decided-by="+stage+" "+historyAfter,
					fmt.Sprintf("same cell: %s in a fresh process, %s %s; cell: %s", before, after, historyAfter, c), c)
			}
			return
		}
		d.check(res, c, true)
		return
	}
	a := alphabetForA(env.Thorough())
	dims := a.dims()
	total := int64(1)
	for _, n := range dims {
		total *= int64(n)
	}
	res.Bounds["cells_total"] = total
	res.Bounds["alphabet"] = map[string]any{
		"hostNetwork": a.hostNet, "namespace(via)": a.namespaces, "label": a.labels, "annotation": a.annotations,
		"neverInjectSelector": a.never, "alwaysInjectSelector": a.always, "podLabels": a.podLabels, "policy": a.policies, "admissionReview": a.apis,
	}
	res.Bounds["template_sha256"] = d.s.digests["sidecar"]
	res.Bounds["process_histories"] = []string{historyFresh, historyAfter}
	// The whole table is evaluated twice: in the fresh process, and again after the istiod components that
	// share the injector's package-level state have run in this process (history cannot be undone, hence
	// the order). The oracle is the same both times, and the two observations of a cell must agree.
	freshObs := map[int64]string{}
	for _, history := range []string{historyFresh, historyAfter} {
		if history == historyAfter {
			runCotenants(t)
			assertGlobalsUnchanged(res, globals, historyAfter, cell{History: historyAfter, Namespace: "kube-system", NsVia: "pod", Label: absent, Annotation: absent,
				Never: "unset", Always: "unset", PodLabels: "app", Policy: "enabled", APIVersion: "v1"})
		}
		engine.Product(dims, func(ord int64, idx []int) bool {
			if !env.Mine(ord) {
				return true
			}
			if env.Expired() {
				res.Cap(fmt.Sprintf("deadline at cell %d/%d (%s)", ord, total, history))
				return false
			}
			c := a.cell(idx)
			c.History = history
			obs := d.check(res, c, false)
			if history == historyFresh {
				freshObs[ord] = obs
			} else if was, ok := freshObs[ord]; ok && was != obs {
				_, stage, _ := refDecision(c)
				res.Violate("decision-depends-on-process-history decided-by="+stage+" "+history,
					fmt.Sprintf("same cell: %s in a fresh process, %s %s; cell: %s", was, obs, history, c), c)
			}
			if ord%197 == 0 && history == historyFresh {
				adm, stage, _ := refDecision(c)
				res.Sample(map[string]any{"cell": c.String(), "decided_by": stage, "admissible_inject": adm[true], "admissible_skip": adm[false]})
			}
			return true
		})
	}
	assertGlobalsUnchanged(res, globals, "the whole run", nil)
}
