// Reference oracles of C19, written from the property statement and DESIGN.md Appendix A.6 only.
// Nothing here calls into pkg/kube/inject.
package c19

import (
	"encoding/json"
	"fmt"
	"reflect"
	"sort"
	"strconv"
	"strings"

	corev1 "k8s.io/api/core/v1"
)

// ---------------------------------------------------------------------------------------------------
// R10: the injection decision
// ---------------------------------------------------------------------------------------------------

const absent = "<absent>" // the label / annotation key is not set at all

// documented system namespaces that are never injected
var refIgnoredNamespaces = map[string]bool{
	"kube-system": true, "kube-public": true, "kube-node-lease": true, "local-path-storage": true,
}

// cell is one row of the decision table (concrete values, so that a replay needs no alphabet).
type cell struct {
	HostNetwork bool   `json:"hostNetwork"`
	Namespace   string `json:"namespace"`
	NsVia       string `json:"nsVia"`      // "pod": metadata.namespace is set; "request": only AdmissionRequest.namespace is
	Label       string `json:"label"`      // value of the sidecar.istio.io/inject label or <absent>
	Annotation  string `json:"annotation"` // value of the sidecar.istio.io/inject annotation or <absent>
	Never       string `json:"never"`      // form of the neverInjectSelector: unset | matchLabels | exists | doesNotExist | notIn
	Always      string `json:"always"`     // form of the alwaysInjectSelector
	PodLabels   string `json:"podLabels"`  // the pod's other labels: app | app+never | app+always | app+never+always | nil | empty
	Policy      string `json:"policy"`
	APIVersion  string `json:"apiVersion"` // AdmissionReview version used on the webhook path
	// History is not an input of the decision: it says what else ran in the process before the cell was
	// evaluated ("fresh" or "after:NamespaceController"). The oracle ignores it on purpose.
	History string `json:"history,omitempty"`
}

func (c cell) String() string {
	h := c.History
	if h == "" {
		h = "fresh"
	}
	return fmt.Sprintf("hostNet=%v ns=%s(%s) label=%s anno=%s never=%s always=%s podLabels=%s policy=%q api=%s process=%s",
		c.HostNetwork, c.Namespace, c.NsVia, c.Label, c.Annotation, c.Never, c.Always, c.PodLabels, c.Policy, c.APIVersion, h)
}

// normalise maps replays recorded with the first version of the table (the selector dimension then
// said selNoMatch | selMatch | selUnset | selMatchExpr and implied the pod's labels) to the current form.
func (c cell) normalise() cell {
	if c.PodLabels != "" {
		return c
	}
	legacy := func(v string) (form string, carries bool) {
		switch v {
		case "selNoMatch":
			return "matchLabels", false
		case "selMatch":
			return "matchLabels", true
		case "selUnset":
			return "unset", true
		case "selMatchExpr":
			return "exists", true
		}
		return v, false
	}
	var n, a bool
	c.Never, n = legacy(c.Never)
	c.Always, a = legacy(c.Always)
	c.PodLabels = "app"
	if n {
		c.PodLabels += "+never"
	}
	if a {
		c.PodLabels += "+always"
	}
	return c
}

const (
	refNeverKey  = "c19.verif/never"
	refAlwaysKey = "c19.verif/always"
)

// otherLabels returns the labels of the pod apart from the inject label; ok=false means "no label map".
func (c cell) otherLabels() (m map[string]string, present bool) {
	switch c.PodLabels {
	case "nil":
		return nil, false
	case "empty":
		return map[string]string{}, true
	}
	m = map[string]string{}
	for _, part := range strings.Split(c.PodLabels, "+") {
		switch part {
		case "app":
			m["app"] = "c19"
		case "never":
			m[refNeverKey] = "yes"
		case "always":
			m[refAlwaysKey] = "yes"
		}
	}
	return m, true
}

// refSelects is the Kubernetes label-selector semantics for the five selector forms of the table: a
// requirement on one key. Negative forms select a pod that does not carry the key at all.
func refSelects(form, key string, podLabels map[string]string) bool {
	v, has := podLabels[key]
	switch form {
	case "matchLabels": // key = yes
		return has && v == "yes"
	case "exists":
		return has
	case "doesNotExist":
		return !has
	case "notIn": // key notin (no, off)
		return !has || (v != "no" && v != "off")
	}
	return false // unset: no selector configured
}

func (c cell) allLabels() map[string]string {
	m, _ := c.otherLabels()
	out := map[string]string{}
	for k, v := range m {
		out[k] = v
	}
	if c.Label != absent {
		out["sidecar.istio.io/inject"] = c.Label
	}
	return out
}

func (c cell) neverMatches() bool  { return refSelects(c.Never, refNeverKey, c.allLabels()) }
func (c cell) alwaysMatches() bool { return refSelects(c.Always, refAlwaysKey, c.allLabels()) }

type tri int

const (
	triAbsent tri = iota
	triYes
	triNo
)

// readings returns every interpretation of the pod-level opt-in/out that the statement admits.
//   - "true"/"false" are the only documented values: one reading.
//   - a value that is present but not a boolean: (i) it is no decision (go on to the selectors);
//     (ii) for such a *label*, the annotation is consulted instead; (iii) if a lenient boolean parser
//     would accept it ("True", "1"), reading it as that boolean is admitted too.
func readings(label, annotation string) []tri {
	interpret := func(v string) (t tri, garbage bool) {
		switch v {
		case absent:
			return triAbsent, false
		case "true":
			return triYes, false
		case "false":
			return triNo, false
		}
		return triAbsent, true
	}
	lenient := func(v string) []tri {
		if b, err := strconv.ParseBool(strings.TrimSpace(v)); err == nil {
			if b {
				return []tri{triYes}
			}
			return []tri{triNo}
		}
		return nil
	}
	fromAnnotation := func() []tri {
		t, g := interpret(annotation)
		out := []tri{t}
		if g {
			out = append(out, lenient(annotation)...)
		}
		return out
	}
	if label == absent {
		return fromAnnotation()
	}
	t, g := interpret(label)
	if !g {
		return []tri{t}
	}
	out := []tri{triAbsent}             // (i)
	out = append(out, fromAnnotation()...) // (ii)
	out = append(out, lenient(label)...)   // (iii)
	return out
}

// decide applies the documented cascade for one reading v of the pod-level setting.
func decide(c cell, v tri) (inject bool, stage string) {
	switch {
	case c.HostNetwork:
		return false, "hostNetwork"
	case refIgnoredNamespaces[c.Namespace]:
		return false, "ignoredNamespace"
	case v == triYes:
		return true, "podSetting=true"
	case v == triNo:
		return false, "podSetting=false"
	case c.neverMatches():
		return false, "neverInjectSelector"
	case c.alwaysMatches():
		return true, "alwaysInjectSelector"
	case c.Policy == "enabled":
		return true, "policy=enabled"
	case c.Policy == "disabled":
		return false, "policy=disabled"
	}
	return false, "policy=other"
}

// refDecision returns the set of admissible verdicts of a cell, the stage that decides under the
// first reading, and whether the cell is open (more than one admissible verdict).
func refDecision(c cell) (admissible map[bool]bool, stage string, open bool) {
	admissible = map[bool]bool{}
	for i, v := range readings(c.Label, c.Annotation) {
		d, st := decide(c, v)
		admissible[d] = true
		if i == 0 {
			stage = st
			if st == "podSetting=true" || st == "podSetting=false" {
				src := "annotation"
				if c.Label != absent {
					src = "label"
				}
				stage = src + strings.TrimPrefix(st, "podSetting")
			}
		}
	}
	return admissible, stage, len(admissible) > 1
}

// precedenceMatters reports whether at least two stages of the cascade have an opinion on the cell and
// the opinions differ, i.e. the cell exercises the *order* and not just one rule.
func precedenceMatters(c cell) bool {
	var ops []bool
	if c.HostNetwork {
		ops = append(ops, false)
	}
	if refIgnoredNamespaces[c.Namespace] {
		ops = append(ops, false)
	}
	for _, v := range []string{c.Label, c.Annotation} {
		if v == "true" {
			ops = append(ops, true)
		} else if v == "false" {
			ops = append(ops, false)
		}
	}
	if c.neverMatches() {
		ops = append(ops, false)
	}
	if c.alwaysMatches() {
		ops = append(ops, true)
	}
	ops = append(ops, c.Policy == "enabled")
	for _, o := range ops[1:] {
		if o != ops[0] {
			return true
		}
	}
	return false
}

func verdict(b bool) string {
	if b {
		return "inject"
	}
	return "skip"
}

// ---------------------------------------------------------------------------------------------------
// structural diff of two JSON documents (lists of named objects are compared by name)
// ---------------------------------------------------------------------------------------------------

func namedList(l []any) (map[string]any, []string, bool) {
	m := map[string]any{}
	var order []string
	for _, e := range l {
		o, ok := e.(map[string]any)
		if !ok {
			return nil, nil, false
		}
		n, ok := o["name"].(string)
		if !ok {
			return nil, nil, false
		}
		if _, dup := m[n]; dup {
			return nil, nil, false
		}
		m[n] = e
		order = append(order, n)
	}
	return m, order, len(l) > 0
}

// diffJSON appends to out the paths at which a and b differ.
func diffJSON(path string, a, b any, out *[]string) {
	if reflect.DeepEqual(a, b) {
		return
	}
	switch av := a.(type) {
	case map[string]any:
		bv, ok := b.(map[string]any)
		if !ok {
			break
		}
		keys := map[string]bool{}
		for k := range av {
			keys[k] = true
		}
		for k := range bv {
			keys[k] = true
		}
		var ks []string
		for k := range keys {
			ks = append(ks, k)
		}
		sort.Strings(ks)
		for _, k := range ks {
			x, okA := av[k]
			y, okB := bv[k]
			ek := strings.ReplaceAll(k, "/", "~1") // JSON-pointer escaping: keys such as sidecar.istio.io/status stay one element
			switch {
			case !okA:
				*out = append(*out, path+"/"+ek+" (added)")
			case !okB:
				*out = append(*out, path+"/"+ek+" (removed)")
			default:
				diffJSON(path+"/"+ek, x, y, out)
			}
		}
		return
	case []any:
		bv, ok := b.([]any)
		if !ok {
			break
		}
		am, ao, okA := namedList(av)
		bm, bo, okB := namedList(bv)
		if okA && okB {
			for _, n := range ao {
				if y, ok := bm[n]; ok {
					diffJSON(path+"["+n+"]", am[n], y, out)
				} else {
					*out = append(*out, path+"["+n+"] (removed)")
				}
			}
			var common []string
			for _, n := range bo {
				if _, ok := am[n]; !ok {
					*out = append(*out, path+"["+n+"] (added)")
				} else {
					common = append(common, n)
				}
			}
			var commonA []string
			for _, n := range ao {
				if _, ok := bm[n]; ok {
					commonA = append(commonA, n)
				}
			}
			if !reflect.DeepEqual(common, commonA) {
				*out = append(*out, path+" (order)")
			}
			return
		}
	}
	*out = append(*out, path+" (changed)")
}

func diffDocs(a, b []byte) []string {
	var x, y any
	_ = json.Unmarshal(a, &x)
	_ = json.Unmarshal(b, &y)
	var out []string
	diffJSON("", x, y, &out)
	return out
}

// ---------------------------------------------------------------------------------------------------
// preservation of what the user wrote
// ---------------------------------------------------------------------------------------------------

// names of containers the injector owns; a container of that name written by the user is the
// documented way of customising the injected one, so only its continued (single) presence is required
var injectorOwned = map[string]bool{"istio-proxy": true, "istio-init": true, "istio-validation": true}

type preserveIssue struct{ Kind, Detail string }

func jsonEq(a, b any) bool { return string(mustJSON(a)) == string(mustJSON(b)) }

func containerNames(cs []corev1.Container) []string {
	var n []string
	for _, c := range cs {
		n = append(n, c.Name)
	}
	return n
}

// checkPreserved compares the user's part of the pod before injection with the pod after it: every
// user container still in its list, in relative order, exactly once, image / command / args / ports
// unchanged; every user volume still there in relative order.
func checkPreserved(before, after *corev1.Pod) []preserveIssue {
	var issues []preserveIssue
	lists := []struct {
		name        string
		in, out     []corev1.Container
		otherOutput []corev1.Container
	}{
		{"containers", before.Spec.Containers, after.Spec.Containers, after.Spec.InitContainers},
		{"initContainers", before.Spec.InitContainers, after.Spec.InitContainers, after.Spec.Containers},
	}
	for _, l := range lists {
		user := map[string]corev1.Container{}
		var want []string
		for _, c := range l.in {
			if injectorOwned[c.Name] {
				n := 0
				for _, o := range append(append([]corev1.Container{}, l.out...), l.otherOutput...) {
					if o.Name == c.Name {
						n++
					}
				}
				if n != 1 {
					issues = append(issues, preserveIssue{"customised-" + c.Name + "-count", fmt.Sprintf("user-written %s container of %s appears %d times after injection", c.Name, l.name, n)})
				}
				continue
			}
			user[c.Name] = c
			want = append(want, c.Name)
		}
		var got []string
		for _, c := range l.out {
			if _, ok := user[c.Name]; ok {
				got = append(got, c.Name)
			}
		}
		if !reflect.DeepEqual(got, want) {
			kind := "user-" + l.name + "-order"
			if len(got) < len(want) {
				kind = "user-" + l.name + "-lost"
			} else if len(got) > len(want) {
				kind = "user-" + l.name + "-duplicated"
			}
			issues = append(issues, preserveIssue{kind, fmt.Sprintf("user %s before %v, after %v (all after: %v)", l.name, want, got, containerNames(l.out))})
		}
		seen := map[string]bool{}
		for _, c := range l.out {
			u, ok := user[c.Name]
			if !ok || seen[c.Name] {
				continue
			}
			seen[c.Name] = true
			if c.Image != u.Image {
				issues = append(issues, preserveIssue{"user-" + l.name + "-image", fmt.Sprintf("%s: image %q -> %q", c.Name, u.Image, c.Image)})
			}
			if !jsonEq(c.Command, u.Command) {
				issues = append(issues, preserveIssue{"user-" + l.name + "-command", fmt.Sprintf("%s: command %v -> %v", c.Name, u.Command, c.Command)})
			}
			if !jsonEq(c.Args, u.Args) {
				issues = append(issues, preserveIssue{"user-" + l.name + "-args", fmt.Sprintf("%s: args %v -> %v", c.Name, u.Args, c.Args)})
			}
			if !jsonEq(c.Ports, u.Ports) {
				issues = append(issues, preserveIssue{"user-" + l.name + "-ports", fmt.Sprintf("%s: ports %s -> %s", c.Name, mustJSON(u.Ports), mustJSON(c.Ports))})
			}
		}
	}
	uv := map[string]bool{}
	var want, got []string
	for _, v := range before.Spec.Volumes {
		uv[v.Name] = true
		want = append(want, v.Name)
	}
	for _, v := range after.Spec.Volumes {
		if uv[v.Name] {
			got = append(got, v.Name)
		}
	}
	if !reflect.DeepEqual(got, want) {
		kind := "user-volumes-order"
		if len(got) < len(want) {
			kind = "user-volumes-lost"
		} else if len(got) > len(want) {
			kind = "user-volumes-duplicated"
		}
		issues = append(issues, preserveIssue{kind, fmt.Sprintf("user volumes before %v, after %v", want, got)})
	}
	return issues
}
