// Shared plumbing of the C19 harness: the shipped injection configuration (rendered from the chart in
// $VERIF_REPO/manifests exactly as pkg/kube/inject's own tests do), a real inject.Webhook per
// configuration, and a client that talks to its /inject HTTP handler the way the API server does
// (AdmissionReview in, JSON patch out, patch applied to the submitted object).
package c19

import (
	"bytes"
	"crypto/sha256"
	"encoding/hex"
	"encoding/json"
	"fmt"
	"net/http"
	"net/http/httptest"
	"os"
	"path/filepath"
	"runtime/debug"
	"strings"
	"testing"

	jsonpatch "github.com/evanphx/json-patch/v5"
	admissionv1 "k8s.io/api/admission/v1"
	corev1 "k8s.io/api/core/v1"
	metav1 "k8s.io/apimachinery/pkg/apis/meta/v1"

	meshconfig "istio.io/api/mesh/v1alpha1"
	"istio.io/istio/operator/pkg/render"
	"istio.io/istio/pilot/pkg/features"
	"istio.io/istio/pilot/pkg/model"
	"istio.io/istio/pkg/config/mesh"
	"istio.io/istio/pkg/config/mesh/meshwatcher"
	"istio.io/istio/pkg/kube/inject"
	"istio.io/istio/pkg/kube/multicluster"
	"istio.io/istio/pkg/log"
)

func repoDir() string {
	if r := os.Getenv("VERIF_REPO"); r != "" {
		return r
	}
	return "/repo"
}

// shipped is the injection configuration a default installation runs with.
type shipped struct {
	rawConfig string // the `config` key of the istio-sidecar-injector ConfigMap
	values    string // its `values` key
	mesh      *meshconfig.MeshConfig
	digests   map[string]string // template name -> sha256 prefix (goes into the evidence)
}

// chart file of each pod-level template the ConfigMap ships
var templateFiles = map[string]string{
	"sidecar":     "injection-template.yaml",
	"gateway":     "gateway-injection-template.yaml",
	"grpc-simple": "grpc-simple.yaml",
	"grpc-agent":  "grpc-agent.yaml",
}

func normLines(s string) string {
	var out []string
	for _, l := range strings.Split(strings.TrimSpace(s), "\n") {
		out = append(out, strings.TrimRight(l, " \t\r"))
	}
	return strings.Join(out, "\n")
}

func quietLogs() {
	for _, s := range log.Scopes() {
		s.SetOutputLevel(log.NoneLevel)
	}
}

// loadShipped renders the istiod chart of $VERIF_REPO with default values (the way
// pkg/kube/inject/webhook_test.go getInjectionSettings does) and extracts the injector ConfigMap and
// the mesh ConfigMap. Any failure here is an infrastructure error, never a violation.
func loadShipped(t *testing.T) *shipped {
	t.Helper()
	quietLogs()
	manifests := filepath.Join(repoDir(), "manifests")
	sets, _, err := render.GenerateManifest(nil, []string{"installPackagePath=" + manifests, "profile=empty", "components.pilot.enabled=true"}, false, nil, nil)
	if err != nil {
		t.Fatalf("render chart from %s: %v", manifests, err)
	}
	quietLogs() // rendering registers more scopes
	s := &shipped{digests: map[string]string{}}
	for _, set := range sets {
		for _, o := range set.Manifests {
			if o.GetKind() != "ConfigMap" {
				continue
			}
			data, _ := o.Object["data"].(map[string]any)
			switch o.GetName() {
			case "istio-sidecar-injector":
				s.rawConfig, _ = data["config"].(string)
				s.values, _ = data["values"].(string)
			case "istio":
				md, _ := data["mesh"].(string)
				mc, err := mesh.ApplyMeshConfig(md, mesh.DefaultMeshConfig())
				if err != nil {
					t.Fatalf("mesh config: %v", err)
				}
				s.mesh = mc
			}
		}
	}
	if s.rawConfig == "" || s.values == "" || s.mesh == nil {
		t.Fatalf("rendered chart lacks the injector or mesh ConfigMap")
	}
	cfg := s.config(t)
	// the templates under test must be the files shipped in the chart, verbatim
	for name, file := range templateFiles {
		p := filepath.Join(manifests, "charts/istio-control/istio-discovery/files", file)
		b, err := os.ReadFile(p)
		if err != nil {
			t.Fatalf("read %s: %v", p, err)
		}
		got, ok := cfg.RawTemplates[name]
		if !ok {
			t.Fatalf("rendered ConfigMap has no template %q", name)
		}
		if normLines(got) != normLines(string(b)) {
			t.Fatalf("template %q of the rendered ConfigMap differs from %s", name, p)
		}
		h := sha256.Sum256(b)
		s.digests[name] = hex.EncodeToString(h[:])[:12]
	}
	return s
}

// config parses a fresh copy of the shipped injector configuration.
func (s *shipped) config(t *testing.T) *inject.Config {
	c, err := inject.UnmarshalConfig([]byte(s.rawConfig))
	if err != nil {
		t.Fatalf("shipped injector config does not parse: %v", err)
	}
	return &c
}

type staticWatcher struct {
	cfg    *inject.Config
	values string
}

func (w *staticWatcher) SetHandler(func(*inject.Config, string) error) {}
func (w *staticWatcher) Run(<-chan struct{})                            {}
func (w *staticWatcher) Get() (*inject.Config, string, error)           { return w.cfg, w.values, nil }

// webhook is a real inject.Webhook reachable only through its HTTP mux.
type webhook struct {
	mux *http.ServeMux
}

// newWebhook builds the production webhook object (inject.NewWebhook) around cfg. Native sidecar
// support is decided per request from features.EnableNativeSidecars (no node informer is attached, so
// the decision is exactly "flag == enabled"); see setNative.
func newWebhook(t *testing.T, s *shipped, cfg *inject.Config) *webhook {
	t.Helper()
	env := &model.Environment{Watcher: meshwatcher.NewTestWatcher(s.mesh)}
	env.SetPushContext(&model.PushContext{ProxyConfigs: &model.ProxyConfigs{}})
	mux := http.NewServeMux()
	saved := features.EnableNativeSidecars
	features.EnableNativeSidecars = features.NativeSidecarModeDisabled // => no node informer
	_, err := inject.NewWebhook(inject.WebhookParameters{
		Watcher:      &staticWatcher{cfg: cfg, values: s.values},
		Env:          env,
		Mux:          mux,
		MultiCluster: multicluster.NewFakeController(),
	})
	features.EnableNativeSidecars = saved
	if err != nil {
		t.Fatalf("NewWebhook: %v", err)
	}
	return &webhook{mux: mux}
}

func setNative(on bool) {
	if on {
		features.EnableNativeSidecars = features.NativeSidecarModeEnabled
	} else {
		features.EnableNativeSidecars = features.NativeSidecarModeDisabled
	}
}

// admitted is what the API server learns from one webhook call.
type admitted struct {
	HTTPStatus int
	Allowed    bool
	Message    string // set when the webhook reported an error
	Patch      []byte // nil: object left as it is
	Panic      string // the handler panicked (value and first istio frame)
}

// serveRecovering runs the handler and turns a panic of the code under test into a value.
func serveRecovering(h http.Handler, rec *httptest.ResponseRecorder, req *http.Request) (panicValue, where string) {
	defer func() {
		if r := recover(); r != nil {
			panicValue = fmt.Sprint(r)
			where = "?"
			lines := strings.Split(string(debug.Stack()), "\n")
			for i, l := range lines {
				if strings.HasPrefix(l, "istio.io/istio/pkg/kube/inject.") && i+1 < len(lines) {
					fn := l
					if j := strings.Index(fn, "("); j > 0 {
						fn = fn[:j]
					}
					loc := strings.TrimSpace(lines[i+1])
					if j := strings.Index(loc, " +0x"); j > 0 {
						loc = loc[:j]
					}
					if j := strings.Index(loc, "/pkg/kube/inject/"); j >= 0 {
						loc = loc[j+1:]
					}
					where = strings.TrimPrefix(fn, "istio.io/istio/pkg/kube/") + " " + loc
					break
				}
			}
		}
	}()
	h.ServeHTTP(rec, req)
	return "", ""
}

// admit posts an AdmissionReview for the pod (given as JSON) to /inject.
func (w *webhook) admit(podJSON []byte, reqNamespace, apiVersion string) (admitted, error) {
	review := map[string]any{
		"kind":       "AdmissionReview",
		"apiVersion": "admission.k8s.io/" + apiVersion,
		"request": map[string]any{
			"uid":       "c19",
			"kind":      metav1.GroupVersionKind{Version: "v1", Kind: "Pod"},
			"resource":  metav1.GroupVersionResource{Version: "v1", Resource: "pods"},
			"namespace": reqNamespace,
			"operation": "CREATE",
			"object":    json.RawMessage(podJSON),
		},
	}
	body, err := json.Marshal(review)
	if err != nil {
		return admitted{}, err
	}
	req := httptest.NewRequest(http.MethodPost, "http://istiod.istio-system.svc/inject", bytes.NewReader(body))
	req.Header.Set("Content-Type", "application/json")
	rec := httptest.NewRecorder()
	if pv, where := serveRecovering(w.mux, rec, req); pv != "" {
		// net/http would recover this per connection and close it: the API server sees a failed call
		return admitted{Panic: "panic: " + pv + " at " + where}, nil
	}
	out := admitted{HTTPStatus: rec.Code}
	if rec.Code != http.StatusOK {
		out.Message = strings.TrimSpace(rec.Body.String())
		return out, nil
	}
	var resp admissionv1.AdmissionReview // v1 and v1beta1 responses have the same JSON shape
	if err := json.Unmarshal(rec.Body.Bytes(), &resp); err != nil {
		return out, fmt.Errorf("undecodable AdmissionReview response: %v", err)
	}
	if resp.Response == nil {
		return out, fmt.Errorf("AdmissionReview response without response")
	}
	out.Allowed = resp.Response.Allowed
	if resp.Response.Result != nil {
		out.Message = resp.Response.Result.Message
	}
	if len(resp.Response.Patch) > 0 {
		out.Patch = resp.Response.Patch
	}
	return out, nil
}

// applyPatch does what the API server does with a JSONPatch admission response.
func applyPatch(objJSON, patch []byte) ([]byte, error) {
	p, err := jsonpatch.DecodePatch(patch)
	if err != nil {
		return nil, err
	}
	return p.Apply(objJSON)
}

// patchOps counts the operations of a JSON patch.
func patchOps(patch []byte) int {
	var ops []json.RawMessage
	_ = json.Unmarshal(patch, &ops)
	return len(ops)
}

func mustJSON(v any) []byte {
	b, err := json.Marshal(v)
	if err != nil {
		panic(err)
	}
	return b
}

// canonical re-encodes JSON with sorted keys so that two documents compare as values.
func canonical(b []byte) string {
	var v any
	if err := json.Unmarshal(b, &v); err != nil {
		return "unparsable:" + string(b)
	}
	return string(mustJSON(v))
}

func decodePod(b []byte) (*corev1.Pod, error) {
	p := &corev1.Pod{}
	if err := json.Unmarshal(b, p); err != nil {
		return nil, err
	}
	return p, nil
}
