// The injector's decision also depends on package-level state of pkg/kube/inject (inject.IgnoredNamespaces
// and friends). istiod runs other components in the same process that read that state; "the same inputs
// always give the same decision" therefore has to hold after they have run, too. This file snapshots the
// exported package-level state and drives those co-tenants on a fake cluster.
package c19

import (
	"context"
	"fmt"
	"sort"
	"strings"
	"testing"
	"time"

	corev1 "k8s.io/api/core/v1"
	metav1 "k8s.io/apimachinery/pkg/apis/meta/v1"

	"istio.io/istio/pilot/pkg/keycertbundle"
	kubecontroller "istio.io/istio/pilot/pkg/serviceregistry/kube/controller"
	"istio.io/istio/pkg/kube"
	"istio.io/istio/pkg/kube/inject"
	"istio.io/istio/pkg/util/sets"
	"istio.io/istio/zz_verif/engine"
)

const (
	historyFresh = "fresh"
	historyAfter = "after:NamespaceController"
)

func sortedKeys[V any](m map[string]V) string {
	var ks []string
	for k := range m {
		ks = append(ks, k)
	}
	sort.Strings(ks)
	return strings.Join(ks, ",")
}

// injectorGlobals renders the exported package-level state of pkg/kube/inject that the decision or the
// rendering reads.
func injectorGlobals() map[string]string {
	var url []string
	for k, v := range inject.URLParameterToEnv {
		url = append(url, k+"="+v)
	}
	sort.Strings(url)
	return map[string]string{
		"inject.IgnoredNamespaces":    strings.Join(sets.SortedList(inject.IgnoredNamespaces), ","),
		"inject.KnownImageTypes":      strings.Join(inject.KnownImageTypes, ","),
		"inject.URLParameterToEnv":    strings.Join(url, ","),
		"inject.AnnotationValidation": sortedKeys(inject.AnnotationValidation),
		"inject.InjectionFuncmap":     sortedKeys(inject.InjectionFuncmap),
	}
}

// assertGlobalsUnchanged reports every piece of package-level injector state that differs from the
// snapshot taken when the worker started.
func assertGlobalsUnchanged(res *engine.Result, before map[string]string, after string, replay any) {
	now := injectorGlobals()
	for name, was := range before {
		if now[name] != was {
			res.Violate(fmt.Sprintf("injector-global-changed %s (%s)", name, after),
				fmt.Sprintf("package-level state of the injector changed while the process ran (%s): %s was [%s], is [%s]; later decisions no longer depend on their inputs only",
					after, name, was, now[name]), replay)
		}
	}
}

// runCotenants builds and runs, on a fake cluster, the istiod components that share the injector's
// package-level state: the namespace controller (pilot/pkg/serviceregistry/kube/controller), which is
// built from inject.IgnoredNamespaces by the replica that holds the leader lock. It returns once the
// controller has demonstrably done its work (root-cert ConfigMap written to an ordinary namespace).
// Failures here are infrastructure errors.
func runCotenants(t *testing.T) {
	t.Helper()
	client := kube.NewFakeClient(
		&corev1.Namespace{ObjectMeta: metav1.ObjectMeta{Name: "c19-app"}},
		&corev1.Namespace{ObjectMeta: metav1.ObjectMeta{Name: "kube-system"}},
		&corev1.Namespace{ObjectMeta: metav1.ObjectMeta{Name: "kube-public"}},
	)
	stop := make(chan struct{})
	t.Cleanup(func() {
		close(stop)
		client.Shutdown()
	})
	bundle := keycertbundle.NewWatcher()
	bundle.SetAndNotify(nil, nil, []byte("-----BEGIN CERTIFICATE-----\nYzE5\n-----END CERTIFICATE-----\n"))
	nc := kubecontroller.NewNamespaceController(client, bundle)
	client.RunAndWait(stop)
	go nc.Run(stop)
	for i := 0; ; i++ {
		_, err := client.Kube().CoreV1().ConfigMaps("c19-app").Get(context.Background(), kubecontroller.CACertNamespaceConfigMap, metav1.GetOptions{})
		if err == nil {
			break
		}
		if i > 20000 {
			t.Fatalf("namespace controller did not write %s to namespace c19-app: %v", kubecontroller.CACertNamespaceConfigMap, err)
		}
		time.Sleep(time.Millisecond) // set-up synchronisation only; nothing is decided by time
	}
	quietLogs()
}
