// C09 harness, part 2: the alphabets. Every element carries, written by hand from the property text and
// the public documentation of the credential formats (never computed by istio code), what the oracle
// needs to know about it.
package c09

import (
	"crypto"
	"crypto/rand"
	"crypto/tls"
	"crypto/x509"
	"crypto/x509/pkix"
	"encoding/asn1"
	"encoding/base64"
	"encoding/pem"
	"math"
	"net"
	"strings"
	"time"

	"google.golang.org/grpc/credentials"
	"google.golang.org/grpc/metadata"
	"google.golang.org/grpc/peer"
)

func b64(b []byte) string { return base64.RawURLEncoding.EncodeToString(b) }

// sanEntry is one GeneralName of a SubjectAltName: context tag (1 rfc822, 2 dNSName, 6 URI, 7 iPAddress)
// and raw value.
type sanEntry struct {
	Tag int    `json:"tag"`
	Val string `json:"val"`
}

func uri(s string) sanEntry { return sanEntry{6, s} }
func dns(s string) sanEntry { return sanEntry{2, s} }

func spiffeID(td, ns, sa string) string { return "spiffe://" + td + "/ns/" + ns + "/sa/" + sa }

// ---------------------------------------------------------------------------------------------- CSR

type csrElem struct {
	Name     string
	Thorough bool
	PEM      string
	// Keys: the public key(s) a certificate issued for this CSR may bind (empty: the input contains no
	// well-formed PKCS#10 request, only an error is acceptable).
	Keys []crypto.PublicKey
	// CN is the subject common name the CSR asks for ("" if none): it must never show up in the leaf
	// unless it happens to be one of the caller's identities.
	CN string
}

func csrPEM(der []byte) string {
	return string(pem.EncodeToMemory(&pem.Block{Type: "CERTIFICATE REQUEST", Bytes: der}))
}

func (w *world) csrs() []csrElem {
	mk := func(t *x509.CertificateRequest, key crypto.Signer) []byte {
		return must(x509.CreateCertificateRequest(rand.Reader, t, key))
	}
	istiodSAN := rawSAN(uri(spiffeID(meshTD, "istio-system", "istiod")), dns("istiod.istio-system.svc"), sanEntry{7, string([]byte{10, 0, 0, 1})})
	bcCA := pkix.Extension{Id: asn1.ObjectIdentifier{2, 5, 29, 19}, Critical: true, Value: must(asn1.Marshal(struct {
		IsCA bool
	}{true}))}
	kuCertSign := pkix.Extension{Id: asn1.ObjectIdentifier{2, 5, 29, 15}, Critical: true, Value: must(asn1.Marshal(asn1.BitString{Bytes: []byte{0x06}, BitLength: 7}))}

	plain := mk(&x509.CertificateRequest{}, w.ecKey)
	other := mk(&x509.CertificateRequest{}, w.ecKey2)
	tampered := append([]byte(nil), plain...)
	tampered[len(tampered)-3] ^= 0x55 // inside the signature value

	return []csrElem{
		{Name: "ec256", PEM: csrPEM(plain), Keys: []crypto.PublicKey{w.ecKey.Public()}},
		{Name: "rsa2048", PEM: csrPEM(mk(&x509.CertificateRequest{Subject: pkix.Name{Organization: []string{"o"}}}, w.rsaKey)), Keys: []crypto.PublicKey{w.rsaKey.Public()}},
		{Name: "ec384", Thorough: true, PEM: csrPEM(mk(&x509.CertificateRequest{}, w.ec384)), Keys: []crypto.PublicKey{w.ec384.Public()}},
		{Name: "ed25519", Thorough: true, PEM: csrPEM(mk(&x509.CertificateRequest{}, w.edKey)), Keys: []crypto.PublicKey{w.edKey.Public()}},
		{Name: "san-ext-istiod", PEM: csrPEM(mk(&x509.CertificateRequest{ExtraExtensions: []pkix.Extension{istiodSAN}}, w.ecKey)), Keys: []crypto.PublicKey{w.ecKey.Public()}},
		{
			Name: "san-fields-istiod", Thorough: true,
			PEM: csrPEM(mk(&x509.CertificateRequest{
				DNSNames: []string{"istiod.istio-system.svc"}, EmailAddresses: []string{"root@istio.io"},
				IPAddresses: []net.IP{net.IPv4(10, 0, 0, 1)},
			}, w.ecKey)), Keys: []crypto.PublicKey{w.ecKey.Public()},
		},
		{Name: "ca-true-ext", PEM: csrPEM(mk(&x509.CertificateRequest{ExtraExtensions: []pkix.Extension{bcCA, kuCertSign, istiodSAN}}, w.ecKey)), Keys: []crypto.PublicKey{w.ecKey.Public()}},
		{
			Name: "subject-cn", CN: "istiod.istio-system.svc",
			PEM:  csrPEM(mk(&x509.CertificateRequest{Subject: pkix.Name{CommonName: "istiod.istio-system.svc", Organization: []string{"system:masters"}}}, w.ecKey)),
			Keys: []crypto.PublicKey{w.ecKey.Public()},
		},
		{Name: "pem-type-certificate", PEM: string(pem.EncodeToMemory(&pem.Block{Type: "CERTIFICATE", Bytes: plain})), Keys: []crypto.PublicKey{w.ecKey.Public()}},
		{Name: "truncated-der", PEM: csrPEM(plain[:len(plain)/2])},
		{Name: "empty", PEM: ""},
		{Name: "not-pem", Thorough: true, PEM: "-----BEGIN CERTIFICATE REQUEST-----\n!!!! not base64 !!!!\n-----END CERTIFICATE REQUEST-----\n"},
		{Name: "pem-of-certificate", Thorough: true, PEM: string(pemCert(w.peerCACert.Raw))},
		{Name: "two-blocks", PEM: csrPEM(plain) + csrPEM(other), Keys: []crypto.PublicKey{w.ecKey.Public(), w.ecKey2.Public()}},
		{Name: "bad-signature", PEM: csrPEM(tampered), Keys: []crypto.PublicKey{w.ecKey.Public()}},
	}
}

// ---------------------------------------------------------------------------------------------- TTL

type ttlElem struct {
	Name     string
	Thorough bool
	Secs     func(c *caCfg) int64
}

func ttls() []ttlElem {
	k := func(v int64) func(*caCfg) int64 { return func(*caCfg) int64 { return v } }
	return []ttlElem{
		{Name: "-1", Secs: k(-1)},
		{Name: "0", Secs: k(0)},
		{Name: "1s", Secs: k(1)},
		{Name: "default", Secs: func(c *caCfg) int64 { return int64(c.DefaultTTL / time.Second) }},
		{Name: "max", Secs: func(c *caCfg) int64 { return int64(c.MaxTTL / time.Second) }},
		{Name: "max+1s", Secs: func(c *caCfg) int64 { return int64(c.MaxTTL/time.Second) + 1 }},
		{Name: "2*max", Thorough: true, Secs: func(c *caCfg) int64 { return 2 * int64(c.MaxTTL/time.Second) }},
		// just beyond the signing certificate's expiry (in configuration "plugged" this is below the maximum)
		{Name: "signer-expiry+", Secs: func(c *caCfg) int64 { return int64(time.Until(c.Signer.NotAfter)/time.Second) + 5 }},
		{Name: "maxint64", Secs: k(math.MaxInt64)},
		{Name: "minint64", Thorough: true, Secs: k(math.MinInt64)},
		// seconds*1e9 wraps around int64: smallest value that wraps negative, and one that wraps to +0.29 s
		{Name: "wrap-negative", Thorough: true, Secs: k(9223372037)},
		{Name: "wrap-positive", Thorough: true, Secs: k(18446744074)},
	}
}

// ---------------------------------------------------------------------------------------------- metadata

// impReq: an impersonation request. Target is the workload identity the string denotes when it is a
// well-formed SPIFFE workload id "spiffe://<td>/ns/<ns>/sa/<sa>" (hand-labelled), nil when it is not.
type impReq struct {
	Raw    string
	Target *[3]string // td, ns, sa
}

type metaElem struct {
	Name string
	// Group names the shape of the element in violation keys (defaults to Name): elements that can only
	// fail for the same reason share one
	Group    string
	Thorough bool
	Fields   map[string]any // nil: request without metadata
	Imp      *impReq
}

func imp(raw string, target ...string) *impReq {
	r := &impReq{Raw: raw}
	if len(target) == 3 {
		r.Target = &[3]string{target[0], target[1], target[2]}
	}
	return r
}

func metas() []metaElem {
	const key = "ImpersonatedIdentity" // the documented metadata key (security.ImpersonatedIdentity)
	m := func(name string, thorough bool, r *impReq) metaElem {
		return metaElem{Name: name, Thorough: thorough, Fields: map[string]any{key: r.Raw}, Imp: r}
	}
	sameNode := spiffeID(meshTD, "ns-a", "sa-a")
	out := []metaElem{
		{Name: "none"},
		m("imp-ns-a/sa-a(n1)", false, imp(sameNode, meshTD, "ns-a", "sa-a")),
		m("imp-ns-b/sa-b(n2)", false, imp(spiffeID(meshTD, "ns-b", "sa-b"), meshTD, "ns-b", "sa-b")),
		m("imp-istiod(n2)", false, imp(spiffeID(meshTD, "istio-system", "istiod"), meshTD, "istio-system", "istiod")),
		m("imp-unknown-sa", false, imp(spiffeID(meshTD, "ns-a", "nope"), meshTD, "ns-a", "nope")),
		m("imp-td-alias", false, imp(spiffeID(meshTDAlias, "ns-a", "sa-a"), meshTDAlias, "ns-a", "sa-a")),
		m("imp-td-other", false, imp(spiffeID("evil.example", "ns-a", "sa-a"), "evil.example", "ns-a", "sa-a")),
		m("imp-td-commas", false, imp(spiffeID("x,istiod.istio-system.svc,y", "ns-a", "sa-a"), "x,istiod.istio-system.svc,y", "ns-a", "sa-a")),
		m("imp-td-comma-ip", true, imp(spiffeID("x,10.0.0.1,y", "ns-a", "sa-a"), "x,10.0.0.1,y", "ns-a", "sa-a")),
		m("imp-td-colon", true, imp(spiffeID("cluster.local:443", "ns-a", "sa-a"), "cluster.local:443", "ns-a", "sa-a")),
		m("imp-td-empty", true, imp(spiffeID("", "ns-a", "sa-a"), "", "ns-a", "sa-a")),
		m("imp-sa-comma", false, imp(sameNode+",istiod.istio-system.svc", meshTD, "ns-a", "sa-a,istiod.istio-system.svc")),
		m("imp-ns-comma", true, imp(spiffeID(meshTD, "ns-a,x", "sa-a"), meshTD, "ns-a,x", "sa-a")),
		m("imp-sa-colon", true, imp(sameNode+":x", meshTD, "ns-a", "sa-a:x")),
		m("imp-not-spiffe", false, imp("ns-a/sa-a")),
		m("imp-k8s-username", true, imp("system:serviceaccount:ns-a:sa-a")),
		m("imp-missing-segments", false, imp("spiffe://"+meshTD+"/ns/ns-a")),
		m("imp-extra-segment", false, imp(sameNode+"/extra")),
		m("imp-swapped-segments", true, imp("spiffe://"+meshTD+"/sa/sa-a/ns/ns-a")),
		m("imp-uppercase-scheme", true, imp("SPIFFE://"+meshTD+"/ns/ns-a/sa/sa-a")),
		m("imp-leading-space", true, imp(" "+sameNode)),
		m("imp-trailing-newline", true, imp(sameNode+"\n", meshTD, "ns-a", "sa-a\n")),
		m("imp-two-ids-comma", true, imp(sameNode+","+spiffeID(meshTD, "istio-system", "istiod"))),
		{Name: "imp-not-a-string", Thorough: true, Fields: map[string]any{key: []any{sameNode}}},
		{Name: "imp-empty-string", Thorough: true, Fields: map[string]any{key: ""}},
		{Name: "certsigner", Fields: map[string]any{"CertSigner": "clusterissuers.istio.io/x"}},
		{Name: "certsigner+imp-ns-a/sa-a(n1)", Fields: map[string]any{"CertSigner": "clusterissuers.istio.io/x", key: sameNode}, Imp: imp(sameNode, meshTD, "ns-a", "sa-a")},
		{Name: "certsigner+imp-ns-b/sa-b(n2)", Thorough: true, Fields: map[string]any{"CertSigner": "x", key: spiffeID(meshTD, "ns-b", "sa-b")}, Imp: imp(spiffeID(meshTD, "ns-b", "sa-b"), meshTD, "ns-b", "sa-b")},
		{Name: "unknown-key", Thorough: true, Fields: map[string]any{"Identity": spiffeID(meshTD, "istio-system", "istiod"), "san": "istiod.istio-system.svc"}},
	}
	// generated family (thorough): every separator at every position of every component of an otherwise
	// authorised request. The label follows from the construction: a component holding '/' breaks the
	// five-segment form (no target), anything else denotes the workload (td', ns', sa'), which is none of
	// the pods' and none of the mesh's trust domains, hence never authorised.
	for ci, comp := range []string{"td", "ns", "sa"} {
		for _, sep := range separators {
			for _, v := range variants(([]string{meshTD, "ns-a", "sa-a"})[ci], sep.S) {
				parts := []string{meshTD, "ns-a", "sa-a"}
				parts[ci] = v.S
				r := imp(spiffeID(parts[0], parts[1], parts[2]))
				if !strings.Contains(v.S, "/") {
					r = imp(spiffeID(parts[0], parts[1], parts[2]), parts[0], parts[1], parts[2])
				}
				e := m("gen-imp-"+comp+"-"+sep.Name+"-"+v.Name, true, r)
				e.Group = "imp-" + comp + "-with-separator"
				out = append(out, e)
			}
		}
	}
	// shapes: a trust domain that is not the mesh's (with / without ',' inside)
	for i := range out {
		if r := out[i].Imp; r != nil && r.Target != nil && r.Target[0] != meshTD && r.Target[0] != meshTDAlias {
			out[i].Group = "imp-trust-domain-not-mesh"
			if strings.Contains(r.Target[0], ",") {
				out[i].Group = "imp-trust-domain-with-comma"
			}
		}
	}
	return out
}

var separators = []struct{ Name, S string }{
	{"comma", ","}, {"slash", "/"}, {"colon", ":"}, {"space", " "}, {"newline", "\n"}, {"nul", "\x00"}, {"semicolon", ";"},
	{"at", "@"}, {"pct2c", "%2C"}, {"dotdot", ".."}, {"star", "*"}, {"hash", "#"}, {"question", "?"},
}

type variant struct{ Name, S string }

func variants(base, sep string) []variant {
	return []variant{{"prefix", "x" + sep + base}, {"suffix", base + sep + "x"}, {"trailing", base + sep}}
}

// ---------------------------------------------------------------------------------------------- authentication

// nodeCaller: the caller presented a Kubernetes token bound to this pod (what the API server vouches for).
type nodeCaller struct{ NS, SA, Pod, UID string }

type authElem struct {
	Name     string
	Group    string // shape of the element in violation keys (defaults to Name)
	Thorough bool
	Class    string // cert | oidc | k8s | xfcc | none | combo
	Peer     *peer.Peer
	MD       metadata.MD
	// Accept: the identity sets a certificate issued to this caller under its own name may carry (any one
	// of them, exactly). Empty: the caller is not authenticated, only an error is acceptable.
	Accept [][]sanEntry
	// Node: set when the credential is a Kubernetes token the API server accepted for a pod.
	Node *nodeCaller
	// Baseline: with a plain CSR, default TTL and no metadata this caller must get a certificate, otherwise
	// the harness itself is broken (infrastructure error, not a verdict).
	Baseline bool
}

var (
	addrUntrusted = &net.TCPAddr{IP: net.IPv4(192, 168, 1, 1), Port: 40000}
	addrGateway   = &net.TCPAddr{IP: net.IPv4(10, 1, 2, 3), Port: 40000}
	addrLoopback  = &net.TCPAddr{IP: net.IPv4(127, 0, 0, 1), Port: 40000}
)

func tlsPeer(addr net.Addr, verified ...*x509.Certificate) *peer.Peer {
	st := tls.ConnectionState{HandshakeComplete: true}
	if len(verified) > 0 {
		st.PeerCertificates = verified
		st.VerifiedChains = [][]*x509.Certificate{verified}
	}
	return &peer.Peer{Addr: addr, AuthInfo: credentials.TLSInfo{State: st}}
}

func bearer(tok string, extra ...string) metadata.MD {
	md := metadata.MD{"authorization": []string{"Bearer " + tok}, "clusterid": []string{clusterID}}
	for i := 0; i+1 < len(extra); i += 2 {
		md[extra[i]] = []string{extra[i+1]}
	}
	return md
}

func xfcc(h string) metadata.MD { return metadata.MD{"x-forwarded-client-cert": []string{h}} }

func one(e ...sanEntry) [][]sanEntry { return [][]sanEntry{e} }

func (w *world) auths() []authElem {
	idA := spiffeID(meshTD, "ns-a", "sa-a")
	idB := spiffeID(meshTD, "ns-b", "sa-b")
	idZt := spiffeID(meshTD, "istio-system", "ztunnel")
	idIstiod := spiffeID(meshTD, "istio-system", "istiod")
	commaURI := idA + ",istiod.istio-system.svc"
	ca := w.peerCACert

	var out []authElem
	add := func(a authElem) { out = append(out, a) }

	// ---- nothing / transport only
	add(authElem{Name: "no-peer", Class: "none"})
	add(authElem{Name: "tls-no-credentials", Class: "none", Peer: tlsPeer(addrUntrusted)})
	add(authElem{Name: "plaintext-with-k8s-token", Class: "none", Peer: &peer.Peer{Addr: addrUntrusted}, MD: bearer("tok-pod-a"),
		// open cell: istiod does not authenticate on the plaintext port; the token itself is valid
		Accept: one(uri(idA)), Node: &nodeCaller{"ns-a", "sa-a", "pod-a", "uid-a"}})

	// ---- client certificate (identities = the SAN entries of the verified leaf)
	add(authElem{Name: "cert-uri", Class: "cert", Baseline: true, Peer: tlsPeer(addrUntrusted, w.peerLeaf(uri(idA)), ca), Accept: one(uri(idA))})
	add(authElem{Name: "cert-two-uris", Class: "cert", Peer: tlsPeer(addrUntrusted, w.peerLeaf(uri(idA), uri(idB)), ca), Accept: one(uri(idA), uri(idB))})
	add(authElem{Name: "cert-uri+dns", Class: "cert", Peer: tlsPeer(addrUntrusted, w.peerLeaf(uri(idA), dns("a.ns-a.svc")), ca), Accept: one(uri(idA), dns("a.ns-a.svc"))})
	add(authElem{Name: "cert-dns", Class: "cert", Thorough: true, Peer: tlsPeer(addrUntrusted, w.peerLeaf(dns("istiod.istio-system.svc")), ca), Accept: one(dns("istiod.istio-system.svc"))})
	add(authElem{Name: "cert-no-san", Class: "cert", Peer: tlsPeer(addrUntrusted, w.peerLeaf(), ca)})
	add(authElem{Name: "cert-unverified", Class: "cert", Peer: &peer.Peer{Addr: addrUntrusted, AuthInfo: credentials.TLSInfo{State: tls.ConnectionState{
		HandshakeComplete: true, PeerCertificates: []*x509.Certificate{w.peerLeaf(uri(idIstiod))},
	}}}})
	add(authElem{Name: "cert-uri-with-comma", Class: "cert", Peer: tlsPeer(addrUntrusted, w.peerLeaf(uri(commaURI)), ca), Accept: one(uri(commaURI))})
	add(authElem{Name: "cert-uri+xfcc-from-untrusted", Class: "combo", Peer: tlsPeer(addrUntrusted, w.peerLeaf(uri(idA)), ca),
		MD: xfcc("URI=" + idIstiod), Accept: one(uri(idA))})
	add(authElem{Name: "cert-uri+k8s-token", Class: "combo", Thorough: true, Peer: tlsPeer(addrUntrusted, w.peerLeaf(uri(idA)), ca),
		MD: bearer("tok-ztunnel-a"), Accept: [][]sanEntry{{uri(idA)}, {uri(idZt)}}, Node: &nodeCaller{"istio-system", "ztunnel", "ztunnel-a", "uid-zt-a"}})

	// ---- XFCC (identities of the certificate(s) a trusted gateway forwarded: URI and DNS SANs; the subject
	// CN is accepted with or without; with several elements every one of {all, first, last} is accepted)
	x := func(name string, thorough bool, addr net.Addr, header string, accept ...[]sanEntry) {
		add(authElem{Name: name, Class: "xfcc", Thorough: thorough, Peer: tlsPeer(addr), MD: xfcc(header), Accept: accept})
	}
	x("xfcc-gateway-uri", false, addrGateway, "By="+spiffeID(meshTD, "istio-system", "gw")+";Hash=abc;URI="+idA, []sanEntry{uri(idA)})
	out[len(out)-1].Baseline = true
	x("xfcc-untrusted-peer", false, addrUntrusted, "Hash=abc;URI="+idIstiod)
	x("xfcc-loopback-peer", true, addrLoopback, "Hash=abc;URI="+idA, []sanEntry{uri(idA)}) // loopback is documented as trusted
	x("xfcc-gateway-two-elements", false, addrGateway, "Hash=a;URI="+idA+",Hash=b;URI="+idB,
		[]sanEntry{uri(idA), uri(idB)}, []sanEntry{uri(idA)}, []sanEntry{uri(idB)})
	x("xfcc-gateway-uri+dns+cn", false, addrGateway, `Hash=a;Subject="CN=a-cn,O=org";URI=`+idA+";DNS=a.ns-a.svc",
		[]sanEntry{uri(idA), dns("a.ns-a.svc")}, []sanEntry{uri(idA), dns("a.ns-a.svc"), dns("a-cn")})
	x("xfcc-gateway-subject-without-cn", false, addrGateway, `Hash=a;Subject="O=org";URI=`+idA, []sanEntry{uri(idA)})
	x("xfcc-gateway-subject-only-without-cn", true, addrGateway, `Hash=a;Subject="O=org"`) // no identity in it at all
	x("xfcc-gateway-malformed", false, addrGateway, "junk header")
	x("xfcc-gateway-no-identity", true, addrGateway, "Hash=abc")
	x("xfcc-gateway-uri-with-comma", false, addrGateway, `Hash=a;URI="`+commaURI+`"`, []sanEntry{uri(commaURI)})
	add(authElem{Name: "xfcc-unix-peer", Class: "xfcc", Thorough: true, Peer: &peer.Peer{Addr: &net.UnixAddr{Name: "@", Net: "unix"}, AuthInfo: credentials.TLSInfo{}},
		MD: xfcc("URI=" + idIstiod)})

	// ---- Kubernetes JWT (identity = spiffe://<mesh trust domain>/ns/<ns>/sa/<sa> of the service account
	// the API server reports as system:serviceaccount:<ns>:<sa>)
	k := func(name string, thorough bool, tok string, id string, node *nodeCaller, extra ...string) {
		a := authElem{Name: name, Class: "k8s", Thorough: thorough, Peer: tlsPeer(addrUntrusted), MD: bearer(tok, extra...), Node: node}
		if id != "" {
			a.Accept = one(uri(id))
		}
		add(a)
	}
	k("k8s-ztunnel-a(n1)", false, "tok-ztunnel-a", idZt, &nodeCaller{"istio-system", "ztunnel", "ztunnel-a", "uid-zt-a"})
	out[len(out)-1].Baseline = true
	k("k8s-ztunnel-b(n2)", false, "tok-ztunnel-b", idZt, &nodeCaller{"istio-system", "ztunnel", "ztunnel-b", "uid-zt-b"})
	k("k8s-ztunnel-a-stale-uid", false, "tok-ztunnel-a-stale", idZt, &nodeCaller{"istio-system", "ztunnel", "ztunnel-a", "uid-zt-a-previous"})
	k("k8s-ztunnel-no-pod-binding", true, "tok-ztunnel-nopod", idZt, &nodeCaller{"istio-system", "ztunnel", "", ""})
	k("k8s-pod-a", false, "tok-pod-a", idA, &nodeCaller{"ns-a", "sa-a", "pod-a", "uid-a"})
	k("k8s-unknown-token", false, "tok-nobody-knows", "", nil)
	k("k8s-unauthenticated", true, "tok-unauthenticated", "", nil)
	k("k8s-status-error", false, "tok-status-error", "", nil)
	k("k8s-api-error", true, "tok-api-error", "", nil)
	k("k8s-human-user", false, "tok-human", "", nil)
	k("k8s-sa-name-not-in-sa-group", true, "tok-human-4parts", "", nil)
	k("k8s-username-3parts", false, "tok-user-3parts", "", nil)
	k("k8s-username-5parts", false, "tok-user-5parts", "", nil)
	k("k8s-username-empty-ns", true, "tok-user-emptyns", "", nil)
	k("k8s-username-empty-sa", true, "tok-user-emptysa", "", nil)
	k("k8s-ztunnel-a-unknown-cluster", false, "tok-ztunnel-a", "", nil, "clusterid", "no-such-cluster")
	// token is fine, but the request names no cluster: authentication uses the primary cluster
	add(authElem{Name: "k8s-ztunnel-a-no-clusterid", Class: "k8s", Thorough: true, Peer: tlsPeer(addrUntrusted),
		MD: metadata.MD{"authorization": []string{"Bearer tok-ztunnel-a"}}, Accept: one(uri(idZt)), Node: &nodeCaller{"istio-system", "ztunnel", "ztunnel-a", "uid-zt-a"}})
	add(authElem{Name: "k8s-basic-auth-header", Class: "k8s", Thorough: true, Peer: tlsPeer(addrUntrusted),
		MD: metadata.MD{"authorization": []string{"Basic tok-ztunnel-a"}, "clusterid": []string{clusterID}}})

	// ---- OIDC JWT ("sub" is documented as system:serviceaccount:<ns>:<sa>; identity as above)
	o := func(name string, thorough bool, accept ...[]sanEntry) {
		add(authElem{Name: name, Class: "oidc", Thorough: thorough, Peer: tlsPeer(addrUntrusted), MD: bearer(w.tokens[name]), Accept: accept})
	}
	o("oidc-ok", false, []sanEntry{uri(idA)})
	out[len(out)-1].Baseline = true
	o("oidc-sub-1part", false)  // "system:serviceaccount"
	o("oidc-sub-3parts", false) // "system:serviceaccount:ns-a"
	// open cells: a sub that is not of the documented form may be refused, or read in any of the listed ways;
	// whatever is issued must be ONE identity
	o("oidc-sub-5parts", false, []sanEntry{uri(idA)}, []sanEntry{uri(idA + ":extra")})
	o("oidc-sub-comma", false, []sanEntry{uri(commaURI)})
	// more than four ':'-separated parts: read whole, or cut at the next ':'
	o("oidc-sub-comma-uri", true, []sanEntry{uri(idA + ",spiffe://cluster.local/ns/istio-system/sa/istiod")}, []sanEntry{uri(idA + ",spiffe")})
	o("oidc-sub-comma-ns", true, []sanEntry{uri(spiffeID(meshTD, "ns-a,10.0.0.1", "sa-a"))})
	o("oidc-sub-slash", true, []sanEntry{uri(idA + "/extra")})
	o("oidc-sub-noprefix", false)
	o("oidc-sub-prefix-run-on", true, []sanEntry{uri(idA)})
	o("oidc-sub-emptyns", true, []sanEntry{uri(spiffeID(meshTD, "", "sa-a"))})
	o("oidc-sub-empty", true)
	o("oidc-aud-mismatch", false)
	o("oidc-aud-mismatch-sub-1part", true)
	o("oidc-aud-string", true, []sanEntry{uri(idA)})
	o("oidc-aud-two", true, []sanEntry{uri(idA)})
	o("oidc-wrong-key", false)
	o("oidc-expired", false)
	o("oidc-wrong-issuer", true)
	o("oidc-alg-none", false)
	o("oidc-garbage", true)
	for _, g := range oidcGenerated() {
		o(g.Name, true, g.Accept...)
		out[len(out)-1].Group = g.Group
	}
	group := map[string]string{
		"oidc-sub-1part": "oidc-sub-fewer-than-4-parts", "oidc-sub-3parts": "oidc-sub-fewer-than-4-parts",
		"oidc-aud-mismatch-sub-1part": "oidc-sub-fewer-than-4-parts",
		"oidc-sub-comma-uri":          "oidc-sub-comma", "oidc-sub-comma-ns": "oidc-sub-comma",
		"xfcc-gateway-subject-without-cn": "xfcc-subject-without-cn", "xfcc-gateway-subject-only-without-cn": "xfcc-subject-without-cn",
	}
	for i := range out {
		if g, ok := group[out[i].Name]; ok {
			out[i].Group = g
		}
	}
	return out
}

type oidcGen struct {
	Name, Sub string
	Group     string
	Accept    [][]sanEntry
}

// oidcGenerated (thorough): every separator at every position of the namespace and service-account parts
// of "sub". Without ':' the sub has the documented four parts and denotes exactly (ns', sa'): one URI,
// verbatim. With an extra ':' the form is not the documented one: refusal, or any one of the plausible
// single-identity readings.
func oidcGenerated() []oidcGen {
	var out []oidcGen
	for ci, comp := range []string{"ns", "sa"} {
		for _, sep := range separators {
			for _, v := range variants(([]string{"ns-a", "sa-a"})[ci], sep.S) {
				c := []string{"ns-a", "sa-a"}
				c[ci] = v.S
				g := oidcGen{Name: "gen-oidc-" + comp + "-" + sep.Name + "-" + v.Name, Sub: "system:serviceaccount:" + c[0] + ":" + c[1]}
				g.Group = "oidc-sub-" + sep.Name
				if !strings.Contains(v.S, ":") {
					g.Accept = [][]sanEntry{{uri(spiffeID(meshTD, c[0], c[1]))}}
				} else {
					p := strings.Split(g.Sub, ":")[2:]
					n := len(p)
					g.Accept = [][]sanEntry{
						{uri(spiffeID(meshTD, p[0], p[1]))},
						{uri(spiffeID(meshTD, p[0], strings.Join(p[1:], ":")))},
						{uri(spiffeID(meshTD, strings.Join(p[:n-1], ":"), p[n-1]))},
					}
				}
				out = append(out, g)
			}
		}
	}
	return out
}
