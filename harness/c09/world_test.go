// C09 harness, part 1: the world every case runs in. Built once per worker process:
//   - two real ca.Server instances over real IstioCA objects (self-signed RSA root as istiod creates it;
//     plugged-in ECDSA intermediate with cert chain that expires within the hour),
//   - the four real authenticators in istiod's order (client certificate, OIDC JWT, Kubernetes JWT, XFCC),
//   - a fake-clientset pod table for node authorisation (CA_TRUSTED_NODE_ACCOUNTS = istio-system/ztunnel),
//   - a TokenReview reactor answering from a literal table,
//   - a loopback JWKS endpoint and a harness RSA key signing the OIDC tokens.
package c09

import (
	"crypto"
	"crypto/ecdsa"
	"crypto/ed25519"
	"crypto/elliptic"
	"crypto/rand"
	"crypto/rsa"
	"crypto/x509"
	"crypto/x509/pkix"
	"encoding/asn1"
	"encoding/json"
	"encoding/pem"
	"fmt"
	"math/big"
	"net/http"
	"net/http/httptest"
	"os"
	"path/filepath"
	"testing"
	"time"

	jose "github.com/go-jose/go-jose/v4"
	k8sauth "k8s.io/api/authentication/v1"
	v1 "k8s.io/api/core/v1"
	metav1 "k8s.io/apimachinery/pkg/apis/meta/v1"
	"k8s.io/apimachinery/pkg/runtime"
	"k8s.io/apimachinery/pkg/types"
	"k8s.io/client-go/kubernetes/fake"
	ktesting "k8s.io/client-go/testing"

	meshconfig "istio.io/api/mesh/v1alpha1"
	"istio.io/api/security/v1beta1"
	"istio.io/istio/pilot/pkg/features"
	"istio.io/istio/pkg/config/mesh/meshwatcher"
	"istio.io/istio/pkg/kube"
	"istio.io/istio/pkg/kube/multicluster"
	"istio.io/istio/pkg/log"
	"istio.io/istio/pkg/security"
	"istio.io/istio/pkg/util/sets"
	"istio.io/istio/security/pkg/pki/ca"
	caserver "istio.io/istio/security/pkg/server/ca"
	"istio.io/istio/security/pkg/server/ca/authenticate"
	"istio.io/istio/security/pkg/server/ca/authenticate/kubeauth"
)

const (
	meshTD      = "cluster.local"
	meshTDAlias = "old.td"
	clusterID   = "Kubernetes"
	oidcAud     = "istio-ca"
	trustedCIDR = "10.0.0.0/8"
)

// podRow is the pod table: the *input* both to the fake API server and to the oracle.
type podRow struct{ Name, NS, SA, Node, UID string }

var pods = []podRow{
	{"ztunnel-a", "istio-system", "ztunnel", "n1", "uid-zt-a"},
	{"ztunnel-b", "istio-system", "ztunnel", "n2", "uid-zt-b"},
	{"pod-a", "ns-a", "sa-a", "n1", "uid-a"},
	{"pod-b", "ns-b", "sa-b", "n2", "uid-b"},
	{"istiod-0", "istio-system", "istiod", "n2", "uid-istiod"},
}

// trusted node accounts (CA_TRUSTED_NODE_ACCOUNTS)
var trustedAccounts = [][2]string{{"istio-system", "ztunnel"}}

// tokenRow: what the (fake) API server answers for an opaque bearer token.
type tokenRow struct {
	Authenticated bool
	Err           string // status.error
	APIErr        bool   // the TokenReview call itself fails
	Username      string
	Groups        []string
	PodName       string
	PodUID        string
}

var saGroups = []string{"system:serviceaccounts", "system:authenticated"}

var tokenTable = map[string]tokenRow{
	"tok-ztunnel-a":       {Authenticated: true, Username: "system:serviceaccount:istio-system:ztunnel", Groups: saGroups, PodName: "ztunnel-a", PodUID: "uid-zt-a"},
	"tok-ztunnel-b":       {Authenticated: true, Username: "system:serviceaccount:istio-system:ztunnel", Groups: saGroups, PodName: "ztunnel-b", PodUID: "uid-zt-b"},
	"tok-ztunnel-a-stale": {Authenticated: true, Username: "system:serviceaccount:istio-system:ztunnel", Groups: saGroups, PodName: "ztunnel-a", PodUID: "uid-zt-a-previous"},
	"tok-ztunnel-nopod":   {Authenticated: true, Username: "system:serviceaccount:istio-system:ztunnel", Groups: saGroups},
	"tok-pod-a":           {Authenticated: true, Username: "system:serviceaccount:ns-a:sa-a", Groups: saGroups, PodName: "pod-a", PodUID: "uid-a"},
	"tok-unauthenticated": {Authenticated: false, Username: "system:serviceaccount:ns-a:sa-a", Groups: saGroups},
	"tok-status-error":    {Authenticated: true, Err: "token expired", Username: "system:serviceaccount:ns-a:sa-a", Groups: saGroups},
	"tok-api-error":       {APIErr: true},
	"tok-human":           {Authenticated: true, Username: "alice", Groups: []string{"system:authenticated"}},
	"tok-human-4parts":    {Authenticated: true, Username: "system:serviceaccount:ns-a:sa-a", Groups: []string{"system:authenticated"}},
	"tok-user-3parts":     {Authenticated: true, Username: "system:serviceaccount:ns-a", Groups: saGroups},
	"tok-user-5parts":     {Authenticated: true, Username: "system:serviceaccount:ns-a:sa-a:extra", Groups: saGroups},
	"tok-user-emptyns":    {Authenticated: true, Username: "system:serviceaccount::sa-a", Groups: saGroups},
	"tok-user-emptysa":    {Authenticated: true, Username: "system:serviceaccount:ns-a:", Groups: saGroups},
}

type caCfg struct {
	Name       string
	Server     *caserver.Server
	Signer     *x509.Certificate
	MaxTTL     time.Duration
	DefaultTTL time.Duration
}

type world struct {
	cas []*caCfg

	// keys generated once
	ecKey, ecKey2 *ecdsa.PrivateKey
	ec384         *ecdsa.PrivateKey
	rsaKey        *rsa.PrivateKey
	edKey         ed25519.PrivateKey

	// client-certificate material (a CA the TLS layer is assumed to have verified against)
	peerCAKey  *ecdsa.PrivateKey
	peerCACert *x509.Certificate

	// OIDC
	jwksURL   string
	oidcKey   *jose.JSONWebKey
	oidcOther *jose.JSONWebKey
	tokens    map[string]string

	tmp     string
	cleanup []func()
}

func must[T any](v T, err error) T {
	if err != nil {
		panic(fmt.Sprintf("c09 harness setup: %v", err))
	}
	return v
}

func must0(err error) {
	if err != nil {
		panic(fmt.Sprintf("c09 harness setup: %v", err))
	}
}

func pemCert(der []byte) []byte {
	return pem.EncodeToMemory(&pem.Block{Type: "CERTIFICATE", Bytes: der})
}

// rawSAN builds a SubjectAltName extension from (tag, value) pairs without any help from istio.
func rawSAN(entries ...sanEntry) pkix.Extension {
	var raws []asn1.RawValue
	for _, e := range entries {
		raws = append(raws, asn1.RawValue{Class: asn1.ClassContextSpecific, Tag: e.Tag, Bytes: []byte(e.Val)})
	}
	return pkix.Extension{Id: asn1.ObjectIdentifier{2, 5, 29, 17}, Critical: true, Value: must(asn1.Marshal(raws))}
}

func newWorld(t *testing.T) *world {
	for _, s := range log.Scopes() {
		s.SetOutputLevel(log.NoneLevel)
	}
	w := &world{tokens: map[string]string{}}
	w.tmp = must(os.MkdirTemp("", "c09-"))
	w.cleanup = append(w.cleanup, func() { os.RemoveAll(w.tmp) })

	w.ecKey = must(ecdsa.GenerateKey(elliptic.P256(), rand.Reader))
	w.ecKey2 = must(ecdsa.GenerateKey(elliptic.P256(), rand.Reader))
	w.ec384 = must(ecdsa.GenerateKey(elliptic.P384(), rand.Reader))
	w.rsaKey = must(rsa.GenerateKey(rand.Reader, 2048))
	_, w.edKey, _ = ed25519.GenerateKey(rand.Reader)

	// ---- global istiod configuration the CA server reads
	features.CATrustedNodeAccounts = sets.New[types.NamespacedName]()
	for _, a := range trustedAccounts {
		features.CATrustedNodeAccounts.Insert(types.NamespacedName{Namespace: a[0], Name: a[1]})
	}
	features.TrustedGatewayCIDR = []string{trustedCIDR}
	if !features.XDSAuth {
		t.Fatalf("XDS_AUTH is off in this environment")
	}

	mw := meshwatcher.NewTestWatcher(&meshconfig.MeshConfig{TrustDomain: meshTD, TrustDomainAliases: []string{meshTDAlias}})

	// ---- Kubernetes side: pods for the node authorizer, TokenReview answers for the JWT authenticator
	var objs []runtime.Object
	for _, p := range pods {
		objs = append(objs, &v1.Pod{
			ObjectMeta: metav1.ObjectMeta{Name: p.Name, Namespace: p.NS, UID: types.UID(p.UID)},
			Spec:       v1.PodSpec{ServiceAccountName: p.SA, NodeName: p.Node},
			Status:     v1.PodStatus{Phase: v1.PodRunning},
		})
	}
	kc := kube.NewFakeClient(objs...)
	stop := make(chan struct{})
	w.cleanup = append(w.cleanup, func() { close(stop) })

	reviewer := fake.NewClientset()
	reviewer.PrependReactor("create", "tokenreviews", func(action ktesting.Action) (bool, runtime.Object, error) {
		tr := action.(ktesting.CreateAction).GetObject().(*k8sauth.TokenReview).DeepCopy()
		row, ok := tokenTable[tr.Spec.Token]
		if !ok {
			tr.Status = k8sauth.TokenReviewStatus{Authenticated: false}
			return true, tr, nil
		}
		if row.APIErr {
			return true, nil, fmt.Errorf("apiserver unavailable")
		}
		// the API server validates the audience: istiod must ask for its own audience
		if len(tr.Spec.Audiences) == 0 || tr.Spec.Audiences[0] != security.TokenAudiences[0] {
			tr.Status = k8sauth.TokenReviewStatus{Authenticated: false}
			return true, tr, nil
		}
		tr.Status = k8sauth.TokenReviewStatus{
			Authenticated: row.Authenticated, Error: row.Err, Audiences: tr.Spec.Audiences,
			User: k8sauth.UserInfo{Username: row.Username, Groups: row.Groups, Extra: map[string]k8sauth.ExtraValue{}},
		}
		if row.PodName != "" {
			tr.Status.User.Extra["authentication.kubernetes.io/pod-name"] = k8sauth.ExtraValue{row.PodName}
			tr.Status.User.Extra["authentication.kubernetes.io/pod-uid"] = k8sauth.ExtraValue{row.PodUID}
		}
		return true, tr, nil
	})

	// ---- OIDC side
	w.oidcKey = &jose.JSONWebKey{Algorithm: string(jose.RS256), Key: w.rsaKey, KeyID: "k1"}
	w.oidcOther = &jose.JSONWebKey{Algorithm: string(jose.RS256), Key: must(rsa.GenerateKey(rand.Reader, 2048)), KeyID: "k1"}
	keySet := jose.JSONWebKeySet{Keys: []jose.JSONWebKey{w.oidcKey.Public()}}
	jwks := must(json.Marshal(keySet))
	srv := httptest.NewServer(http.HandlerFunc(func(rw http.ResponseWriter, _ *http.Request) { rw.Write(jwks) }))
	w.cleanup = append(w.cleanup, srv.Close)
	w.jwksURL = srv.URL
	oidcAuthn := must(authenticate.NewJwtAuthenticator(&v1beta1.JWTRule{Issuer: srv.URL, JwksUri: srv.URL, Audiences: []string{oidcAud}}, mw))
	w.buildOIDCTokens()

	// ---- client certificates: a CA whose chains the TLS layer has verified
	w.peerCAKey = must(ecdsa.GenerateKey(elliptic.P256(), rand.Reader))
	tmpl := &x509.Certificate{
		SerialNumber: big.NewInt(1), Subject: pkix.Name{Organization: []string{"peer-ca"}},
		NotBefore: time.Now().Add(-time.Hour), NotAfter: time.Now().Add(24 * time.Hour),
		IsCA: true, BasicConstraintsValid: true, KeyUsage: x509.KeyUsageCertSign,
	}
	w.peerCACert = must(x509.ParseCertificate(must(x509.CreateCertificate(rand.Reader, tmpl, tmpl, &w.peerCAKey.PublicKey, w.peerCAKey))))

	// authenticators in the order istiod installs them (pilot/pkg/bootstrap/server.go)
	authenticators := func() []security.Authenticator {
		return []security.Authenticator{
			&authenticate.ClientCertAuthenticator{},
			oidcAuthn,
			kubeauth.NewKubeJWTAuthenticator(mw, reviewer, clusterID, nil, nil),
			&authenticate.XfccAuthenticator{},
		}
	}

	// ---- CA configuration 1: self-signed, exactly what istiod creates without a cacerts secret
	{
		def, max := time.Hour, 24*time.Hour
		opts := must(ca.NewSelfSignedDebugIstioCAOptions("", 3650*24*time.Hour, def, max, "cluster.local", 2048))
		ica := must(ca.NewIstioCA(opts))
		mc := multicluster.NewFakeController()
		srv := must(caserver.New(ica, max, authenticators(), mc))
		mc.Add(clusterID, kc, stop)
		signer, _, _, _ := ica.GetCAKeyCertBundle().GetAll()
		w.cas = append(w.cas, &caCfg{Name: "selfsigned", Server: srv, Signer: signer, MaxTTL: max, DefaultTTL: def})
	}
	// ---- CA configuration 2: plugged-in intermediate (ECDSA) with a cert chain; the intermediate expires in
	// one hour while the configured maximum is two hours, so the signer-expiry clamp is what bounds NotAfter.
	{
		def, max := 30*time.Minute, 2*time.Hour
		rootKey := must(ecdsa.GenerateKey(elliptic.P256(), rand.Reader))
		rootT := &x509.Certificate{
			SerialNumber: big.NewInt(2), Subject: pkix.Name{Organization: []string{"plug-root"}},
			NotBefore: time.Now().Add(-time.Hour), NotAfter: time.Now().Add(3650 * 24 * time.Hour),
			IsCA: true, BasicConstraintsValid: true, KeyUsage: x509.KeyUsageCertSign | x509.KeyUsageCRLSign,
		}
		rootDER := must(x509.CreateCertificate(rand.Reader, rootT, rootT, &rootKey.PublicKey, rootKey))
		root := must(x509.ParseCertificate(rootDER))
		intKey := must(ecdsa.GenerateKey(elliptic.P256(), rand.Reader))
		intT := &x509.Certificate{
			SerialNumber: big.NewInt(3), Subject: pkix.Name{Organization: []string{"plug-intermediate"}},
			NotBefore: time.Now().Add(-time.Hour), NotAfter: time.Now().Add(time.Hour),
			IsCA: true, BasicConstraintsValid: true, KeyUsage: x509.KeyUsageCertSign | x509.KeyUsageCRLSign,
		}
		intDER := must(x509.CreateCertificate(rand.Reader, intT, root, &intKey.PublicKey, rootKey))
		write := func(name string, b []byte) string {
			p := filepath.Join(w.tmp, name)
			must0(os.WriteFile(p, b, 0o600))
			return p
		}
		keyPEM := pem.EncodeToMemory(&pem.Block{Type: "EC PRIVATE KEY", Bytes: must(x509.MarshalECPrivateKey(intKey))})
		fb := ca.SigningCAFileBundle{
			RootCertFile:    write("root-cert.pem", pemCert(rootDER)),
			CertChainFiles:  []string{write("cert-chain.pem", append(pemCert(intDER), pemCert(rootDER)...))},
			SigningCertFile: write("ca-cert.pem", pemCert(intDER)),
			SigningKeyFile:  write("ca-key.pem", keyPEM),
		}
		opts := must(ca.NewPluggedCertIstioCAOptions(fb, def, max, 2048))
		ica := must(ca.NewIstioCA(opts))
		mc := multicluster.NewFakeController()
		srv := must(caserver.New(ica, max, authenticators(), mc))
		mc.Add(clusterID, kc, stop)
		signer, _, _, _ := ica.GetCAKeyCertBundle().GetAll()
		w.cas = append(w.cas, &caCfg{Name: "plugged", Server: srv, Signer: signer, MaxTTL: max, DefaultTTL: def})
	}

	kc.RunAndWait(stop)
	deadline := time.Now().Add(30 * time.Second)
	for _, c := range w.cas {
		for !c.Server.VerifNodeAuthorizersSynced() {
			if time.Now().After(deadline) {
				t.Fatalf("node authorizer of %s did not sync", c.Name)
			}
			time.Sleep(5 * time.Millisecond)
		}
	}
	return w
}

func (w *world) close() {
	for i := len(w.cleanup) - 1; i >= 0; i-- {
		w.cleanup[i]()
	}
}

// ---- OIDC tokens ---------------------------------------------------------------------------------

func signJWT(key *jose.JSONWebKey, claims map[string]any) string {
	signer := must(jose.NewSigner(jose.SigningKey{Algorithm: jose.RS256, Key: key}, nil))
	sig := must(signer.Sign(must(json.Marshal(claims))))
	return must(sig.CompactSerialize())
}

func (w *world) oidcClaims(sub string, aud any) map[string]any {
	return map[string]any{"iss": w.jwksURL, "sub": sub, "aud": aud, "exp": time.Now().Add(6 * time.Hour).Unix(), "iat": time.Now().Add(-time.Minute).Unix()}
}

func (w *world) buildOIDCTokens() {
	ok := []string{oidcAud}
	sub := func(name, s string) { w.tokens[name] = signJWT(w.oidcKey, w.oidcClaims(s, ok)) }
	sub("oidc-ok", "system:serviceaccount:ns-a:sa-a")
	sub("oidc-sub-1part", "system:serviceaccount")
	sub("oidc-sub-3parts", "system:serviceaccount:ns-a")
	sub("oidc-sub-5parts", "system:serviceaccount:ns-a:sa-a:extra")
	sub("oidc-sub-comma", "system:serviceaccount:ns-a:sa-a,istiod.istio-system.svc")
	sub("oidc-sub-comma-uri", "system:serviceaccount:ns-a:sa-a,spiffe://cluster.local/ns/istio-system/sa/istiod")
	sub("oidc-sub-comma-ns", "system:serviceaccount:ns-a,10.0.0.1:sa-a")
	sub("oidc-sub-slash", "system:serviceaccount:ns-a:sa-a/extra")
	sub("oidc-sub-noprefix", "user:alice:ns-a:sa-a")
	sub("oidc-sub-prefix-run-on", "system:serviceaccounts:ns-a:sa-a")
	sub("oidc-sub-emptyns", "system:serviceaccount::sa-a")
	sub("oidc-sub-empty", "")
	w.tokens["oidc-aud-mismatch"] = signJWT(w.oidcKey, w.oidcClaims("system:serviceaccount:ns-a:sa-a", []string{"someone-else"}))
	w.tokens["oidc-aud-mismatch-sub-1part"] = signJWT(w.oidcKey, w.oidcClaims("system:serviceaccount", []string{"someone-else"}))
	w.tokens["oidc-aud-string"] = signJWT(w.oidcKey, w.oidcClaims("system:serviceaccount:ns-a:sa-a", oidcAud))
	w.tokens["oidc-aud-two"] = signJWT(w.oidcKey, w.oidcClaims("system:serviceaccount:ns-a:sa-a", []string{"someone-else", oidcAud}))
	w.tokens["oidc-wrong-key"] = signJWT(w.oidcOther, w.oidcClaims("system:serviceaccount:istio-system:istiod", ok))
	exp := w.oidcClaims("system:serviceaccount:ns-a:sa-a", ok)
	exp["exp"] = time.Now().Add(-time.Hour).Unix()
	w.tokens["oidc-expired"] = signJWT(w.oidcKey, exp)
	iss := w.oidcClaims("system:serviceaccount:ns-a:sa-a", ok)
	iss["iss"] = "https://other-issuer.example"
	w.tokens["oidc-wrong-issuer"] = signJWT(w.oidcKey, iss)
	// unsigned token (alg none), hand-assembled
	w.tokens["oidc-alg-none"] = "eyJhbGciOiJub25lIn0." + b64(must(json.Marshal(w.oidcClaims("system:serviceaccount:istio-system:istiod", ok)))) + "."
	w.tokens["oidc-garbage"] = "a.b.c"
	for _, g := range oidcGenerated() {
		sub(g.Name, g.Sub)
	}
}

// ---- client certificates ----------------------------------------------------------------------------

// peerLeaf issues (from the peer CA) the certificate a TLS client presented; sans may be empty.
func (w *world) peerLeaf(sans ...sanEntry) *x509.Certificate {
	tmpl := &x509.Certificate{
		SerialNumber: big.NewInt(100), NotBefore: time.Now().Add(-time.Hour), NotAfter: time.Now().Add(12 * time.Hour),
		KeyUsage: x509.KeyUsageDigitalSignature, ExtKeyUsage: []x509.ExtKeyUsage{x509.ExtKeyUsageClientAuth},
	}
	if len(sans) > 0 {
		tmpl.ExtraExtensions = []pkix.Extension{rawSAN(sans...)}
	} else {
		tmpl.Subject = pkix.Name{CommonName: "no-san-client"}
	}
	der := must(x509.CreateCertificate(rand.Reader, tmpl, w.peerCACert, &w.ecKey2.PublicKey, w.peerCAKey))
	return must(x509.ParseCertificate(der))
}

var _ crypto.PrivateKey
