// C09: issued workload certificates carry exactly the caller's authenticated identity.
//
// The full product CA configuration x authentication scenario x request metadata x CSR x requested TTL is
// pushed through the real ca.Server.CreateCertificate (real IstioCA, real authenticators, real node
// authorizer). The verdict is taken from the answer only: the gRPC status, or the DER of cert_chain[0]
// parsed independently of istio (SubjectAltName walked with encoding/asn1, the rest with crypto/x509).
package c09

import (
	"bytes"
	"context"
	"crypto/x509"
	"crypto/x509/pkix"
	"encoding/asn1"
	"encoding/pem"
	"fmt"
	"math/big"
	"sort"
	"strings"
	"testing"
	"time"

	"google.golang.org/grpc/metadata"
	"google.golang.org/grpc/peer"
	"google.golang.org/grpc/status"
	"google.golang.org/protobuf/types/known/structpb"

	pb "istio.io/api/security/v1alpha1"
	"istio.io/istio/security/pkg/pki/util"
	"istio.io/istio/zz_verif/engine"
)

// Backdating of NotBefore: istio documents (exported constant util.ClockSkewGracePeriod, "the period of
// time a certificate will be valid before its creation") that certificates are valid from a little before
// their creation. The property bounds the lifetime counted from issuance, so the documented backdating is
// not counted; nothing else is tolerated.
const skewAllowance = util.ClockSkewGracePeriod

type replayCase struct {
	CA   string `json:"ca"`
	Auth string `json:"auth"`
	Meta string `json:"meta"`
	CSR  string `json:"csr"`
	TTL  string `json:"ttl"`
}

func (r replayCase) String() string {
	return fmt.Sprintf("ca=%s auth=%s meta=%s csr=%s ttl=%s", r.CA, r.Auth, r.Meta, r.CSR, r.TTL)
}

// observation: what the outside world sees of one CreateCertificate call.
type observation struct {
	Panic  string
	Code   string // gRPC code when err != nil
	Resp   *pb.IstioCertificateResponse
	Before time.Time
	After  time.Time
}

func call(c *caCfg, a *authElem, m *metaElem, csr *csrElem, ttl int64) (o observation) {
	ctx := context.Background()
	if a.Peer != nil {
		ctx = peer.NewContext(ctx, a.Peer)
	}
	if a.MD != nil {
		ctx = metadata.NewIncomingContext(ctx, a.MD.Copy())
	}
	req := &pb.IstioCertificateRequest{Csr: csr.PEM, ValidityDuration: ttl}
	if m.Fields != nil {
		req.Metadata = must(structpb.NewStruct(m.Fields))
	}
	o.Before = time.Now()
	defer func() {
		o.After = time.Now()
		if r := recover(); r != nil {
			o.Panic = fmt.Sprint(r)
		}
	}()
	resp, err := c.Server.CreateCertificate(ctx, req)
	if err != nil {
		st, _ := status.FromError(err)
		o.Code = st.Code().String()
		return o
	}
	o.Resp = resp
	return o
}

// ---- independent reading of the leaf ------------------------------------------------------------------

type tbsLite struct {
	Raw        asn1.RawContent
	Version    int `asn1:"optional,explicit,default:0,tag:0"`
	Serial     *big.Int
	SigAlg     asn1.RawValue
	Issuer     asn1.RawValue
	Validity   asn1.RawValue
	Subject    asn1.RawValue
	PublicKey  asn1.RawValue
	UniqueID   asn1.BitString   `asn1:"optional,tag:1"`
	SubjectUID asn1.BitString   `asn1:"optional,tag:2"`
	Extensions []pkix.Extension `asn1:"omitempty,optional,explicit,tag:3"`
}

type certLite struct {
	TBS    tbsLite
	SigAlg asn1.RawValue
	Sig    asn1.BitString
}

var oidSAN = asn1.ObjectIdentifier{2, 5, 29, 17}

// leafSANs walks the certificate with encoding/asn1 only and returns every GeneralName of every
// SubjectAltName extension (tag, raw bytes), whatever crypto/x509 may think of their syntax.
func leafSANs(der []byte) ([]sanEntry, int, error) {
	var c certLite
	if rest, err := asn1.Unmarshal(der, &c); err != nil || len(rest) != 0 {
		return nil, 0, fmt.Errorf("not a DER certificate: %v", err)
	}
	var out []sanEntry
	n := 0
	for _, e := range c.TBS.Extensions {
		if !e.Id.Equal(oidSAN) {
			continue
		}
		n++
		var seq asn1.RawValue
		if rest, err := asn1.Unmarshal(e.Value, &seq); err != nil || len(rest) != 0 || seq.Tag != asn1.TagSequence {
			return nil, n, fmt.Errorf("SubjectAltName is not a SEQUENCE")
		}
		for b := seq.Bytes; len(b) > 0; {
			var gn asn1.RawValue
			var err error
			if b, err = asn1.Unmarshal(b, &gn); err != nil {
				return nil, n, fmt.Errorf("GeneralName: %v", err)
			}
			tag := gn.Tag
			if gn.Class != asn1.ClassContextSpecific {
				tag = -1
			}
			out = append(out, sanEntry{tag, string(gn.Bytes)})
		}
	}
	return out, n, nil
}

// leafView: the fields of the leaf the property speaks about.
type leafView struct {
	IsCA, CertSign      bool
	CN                  string
	SPKI                []byte
	NotBefore, NotAfter time.Time
}

func viewX509(der []byte) (leafView, error) {
	leaf, err := x509.ParseCertificate(der)
	if err != nil {
		return leafView{}, err
	}
	return leafView{
		IsCA: leaf.IsCA, CertSign: leaf.KeyUsage&(x509.KeyUsageCertSign|x509.KeyUsageCRLSign) != 0, CN: leaf.Subject.CommonName,
		SPKI: leaf.RawSubjectPublicKeyInfo, NotBefore: leaf.NotBefore, NotAfter: leaf.NotAfter,
	}, nil
}

// viewLite reads the same fields with encoding/asn1 only.
func viewLite(der []byte) (leafView, error) {
	var c certLite
	if rest, err := asn1.Unmarshal(der, &c); err != nil || len(rest) != 0 {
		return leafView{}, fmt.Errorf("not a DER certificate: %v", err)
	}
	v := leafView{SPKI: c.TBS.PublicKey.FullBytes}
	var val struct{ NotBefore, NotAfter time.Time }
	if _, err := asn1.Unmarshal(c.TBS.Validity.FullBytes, &val); err != nil {
		return v, fmt.Errorf("validity: %v", err)
	}
	v.NotBefore, v.NotAfter = val.NotBefore, val.NotAfter
	var rdn pkix.RDNSequence
	if _, err := asn1.Unmarshal(c.TBS.Subject.FullBytes, &rdn); err != nil {
		return v, fmt.Errorf("subject: %v", err)
	}
	var name pkix.Name
	name.FillFromRDNSequence(&rdn)
	v.CN = name.CommonName
	for _, e := range c.TBS.Extensions {
		switch {
		case e.Id.Equal(asn1.ObjectIdentifier{2, 5, 29, 19}):
			var bc struct {
				IsCA       bool `asn1:"optional"`
				MaxPathLen int  `asn1:"optional,default:-1"`
			}
			if _, err := asn1.Unmarshal(e.Value, &bc); err != nil {
				return v, fmt.Errorf("basicConstraints: %v", err)
			}
			v.IsCA = v.IsCA || bc.IsCA
		case e.Id.Equal(asn1.ObjectIdentifier{2, 5, 29, 15}):
			var ku asn1.BitString
			if _, err := asn1.Unmarshal(e.Value, &ku); err != nil {
				return v, fmt.Errorf("keyUsage: %v", err)
			}
			v.CertSign = v.CertSign || ku.At(5) != 0 || ku.At(6) != 0
		}
	}
	return v, nil
}

func sanKey(s []sanEntry) string {
	var p []string
	for _, e := range s {
		p = append(p, fmt.Sprintf("%d:%q", e.Tag, e.Val))
	}
	sort.Strings(p)
	return "[" + strings.Join(p, " ") + "]"
}

func sameSANs(a, b []sanEntry) bool { return len(a) == len(b) && sanKey(a) == sanKey(b) }

// ---- the oracle ------------------------------------------------------------------------------------------

// authorisedToImpersonate is the property's clause "one identity the caller is authorised to impersonate
// for a workload on its own node", evaluated on the literal pod table.
func authorisedToImpersonate(a *authElem, r *impReq) bool {
	if a.Node == nil || r == nil || r.Target == nil {
		return false
	}
	trusted := false
	for _, t := range trustedAccounts {
		trusted = trusted || (t[0] == a.Node.NS && t[1] == a.Node.SA)
	}
	if !trusted {
		return false
	}
	node := ""
	for _, p := range pods {
		if p.Name == a.Node.Pod && p.NS == a.Node.NS && p.UID == a.Node.UID && p.SA == a.Node.SA {
			node = p.Node
		}
	}
	if node == "" {
		return false
	}
	td, ns, sa := r.Target[0], r.Target[1], r.Target[2]
	if td != meshTD && td != meshTDAlias {
		return false
	}
	for _, p := range pods {
		if p.Node == node && p.NS == ns && p.SA == sa {
			return r.Raw == spiffeID(td, ns, sa)
		}
	}
	return false
}

type finding struct{ kind, desc string }

// judge returns the violations of one case and a short outcome label.
func judge(c *caCfg, a *authElem, m *metaElem, csr *csrElem, o observation) (string, []finding) {
	if o.Panic != "" {
		return "panic", []finding{{"panic", "CreateCertificate panicked: " + o.Panic}}
	}
	if o.Resp == nil {
		return "error:" + o.Code, nil // an error status is always within the property
	}
	var f []finding
	bad := func(kind, format string, args ...any) { f = append(f, finding{kind, fmt.Sprintf(format, args...)}) }

	if len(o.Resp.CertChain) == 0 {
		return "ok-empty", []finding{{"malformed-response", "OK status with an empty cert_chain"}}
	}
	blk, _ := pem.Decode([]byte(o.Resp.CertChain[0]))
	if blk == nil || blk.Type != "CERTIFICATE" {
		return "ok-nopem", []finding{{"malformed-response", "cert_chain[0] is not a PEM certificate"}}
	}
	if len(a.Accept) == 0 {
		bad("unauthenticated-issued", "a certificate was issued although the caller is not authenticated")
	}
	if len(csr.Keys) == 0 {
		bad("malformed-csr-issued", "a certificate was issued although the request holds no well-formed CSR")
	}

	// -- identities
	sans, nExt, err := leafSANs(blk.Bytes)
	if err != nil {
		bad("malformed-leaf", "cannot walk the issued certificate: %v", err)
		return "issued-unreadable", f
	}
	if nExt != 1 {
		bad("identity", "issued certificate has %d SubjectAltName extensions", nExt)
	}
	label := "issued:own"
	var expected [][]sanEntry
	switch {
	case m.Imp != nil && authorisedToImpersonate(a, m.Imp):
		// authorised impersonation: exactly that identity (falling back to the caller's own name is not
		// what was asked for, but the property does not forbid it either)
		expected = append([][]sanEntry{{uri(m.Imp.Raw)}}, a.Accept...)
	default:
		expected = a.Accept
	}
	okID := false
	for i, e := range expected {
		if sameSANs(e, sans) {
			okID = true
			if m.Imp != nil && i == 0 && sameSANs(sans, []sanEntry{uri(m.Imp.Raw)}) && authorisedToImpersonate(a, m.Imp) {
				label = "issued:impersonated"
			}
		}
	}
	if !okID && len(a.Accept) > 0 {
		var exp []string
		for _, e := range expected {
			exp = append(exp, sanKey(e))
		}
		why := ""
		if m.Imp != nil && !authorisedToImpersonate(a, m.Imp) {
			why = " (impersonation of " + fmt.Sprintf("%q", m.Imp.Raw) + " is not authorised for this caller)"
		}
		bad("identity", "SANs of the issued certificate are %s, expected one of %s%s", sanKey(sans), strings.Join(exp, " | "), why)
		label = "issued:wrong-identity"
	}

	// -- everything else: crypto/x509's reading; when crypto/x509 refuses the certificate (for instance a
	// control character inside a URI SAN) the same fields are taken from the encoding/asn1 walk, so that
	// syntax strictness of the parser is not mistaken for a property violation
	v, err := viewX509(blk.Bytes)
	if err != nil {
		label += "(x509-rejects)"
		if v, err = viewLite(blk.Bytes); err != nil {
			bad("malformed-leaf", "issued certificate (SANs %s) cannot be read: %v", sanKey(sans), err)
			return label, f
		}
	}
	if v.IsCA || v.CertSign {
		bad("ca-certificate", "issued certificate is a CA certificate (IsCA=%v keyCertSign/cRLSign=%v)", v.IsCA, v.CertSign)
	}
	if v.CN != "" {
		fromIdentity := false
		for _, e := range sans {
			fromIdentity = fromIdentity || e.Val == v.CN
		}
		if !fromIdentity {
			bad("identity", "subject CN %q of the issued certificate is none of its identities %s (CSR asked for CN %q)", v.CN, sanKey(sans), csr.CN)
		}
	}
	if len(csr.Keys) > 0 {
		match := false
		for _, k := range csr.Keys {
			want, _ := x509.MarshalPKIXPublicKey(k)
			match = match || bytes.Equal(v.SPKI, want)
		}
		if !match {
			bad("public-key", "issued certificate does not bind the CSR's public key")
		}
	}
	if v.NotAfter.After(c.Signer.NotAfter) {
		bad("validity", "NotAfter %s is beyond the signing certificate's NotAfter %s", v.NotAfter.UTC().Format(time.RFC3339), c.Signer.NotAfter.UTC().Format(time.RFC3339))
	}
	if v.NotAfter.After(o.After.Add(c.MaxTTL)) {
		bad("validity", "NotAfter is %s after issuance, configured maximum is %s", v.NotAfter.Sub(o.After).Round(time.Second), c.MaxTTL)
	}
	// certificate fields only (no clock involved): exact to the second
	if v.NotAfter.Sub(v.NotBefore) > c.MaxTTL+skewAllowance {
		bad("validity", "NotAfter-NotBefore = %s, configured maximum is %s (+%s documented backdating)", v.NotAfter.Sub(v.NotBefore), c.MaxTTL, skewAllowance)
	}
	if v.NotBefore.After(o.After) {
		bad("validity", "NotBefore lies in the future")
	}
	return label, f
}

// kinds: the set of violation kinds of a case (what has to be reproducible).
func kinds(fs []finding) string {
	set := map[string]bool{}
	for _, f := range fs {
		set[f.kind] = true
	}
	var k []string
	for x := range set {
		k = append(k, x)
	}
	sort.Strings(k)
	return "{" + strings.Join(k, ",") + "}"
}

// violationKey groups by the shape that fails: the dimensions a kind of violation depends on, each named
// by the element's group.
func violationKey(kind string, rc replayCase, a *authElem, m *metaElem) string {
	an, mn := a.Name, m.Name
	if a.Group != "" {
		an = a.Group
	}
	if m.Group != "" {
		mn = m.Group
	}
	switch kind {
	case "panic":
		return "panic|auth=" + an
	case "unauthenticated-issued":
		return kind + "|auth=" + an
	case "identity", "malformed-leaf":
		if m.Imp != nil {
			return kind + "|auth=" + an + "|meta=" + mn
		}
		return kind + "|auth=" + an
	case "ca-certificate", "public-key", "malformed-csr-issued":
		return kind + "|csr=" + rc.CSR
	case "validity":
		return kind + "|ca=" + rc.CA + "|ttl=" + rc.TTL
	}
	return kind + "|" + rc.String()
}

// ---- the test ------------------------------------------------------------------------------------------------

func pick[T any](all []T, thorough bool, isThorough func(T) bool) []T {
	var out []T
	for _, e := range all {
		if thorough || !isThorough(e) {
			out = append(out, e)
		}
	}
	return out
}

func TestC09(t *testing.T) {
	env := engine.GetEnv()
	res := engine.NewResult("C09", "a-issuance")
	res.Rule = "full product CA config x authentication scenario x request metadata x CSR x requested TTL through the real " +
		"ca.Server.CreateCertificate; a case is non-trivial when a certificate was issued and its parsed leaf was judged"
	defer res.Write(t, env)

	w := newWorld(t)
	defer w.close()

	replaying := env.Replay != ""
	full := env.Thorough() || replaying
	cas := w.cas
	auths := pick(w.auths(), full, func(e authElem) bool { return e.Thorough })
	ms := pick(metas(), full, func(e metaElem) bool { return e.Thorough })
	csrs := pick(w.csrs(), full, func(e csrElem) bool { return e.Thorough })
	ts := pick(ttls(), full, func(e ttlElem) bool { return e.Thorough })

	runCase := func(ci, ai, mi, si, ti int) {
		c, a, m, s, tt := cas[ci], &auths[ai], &ms[mi], &csrs[si], &ts[ti]
		rc := replayCase{c.Name, a.Name, m.Name, s.Name, tt.Name}
		res.Evaluations++
		o := call(c, a, m, s, tt.Secs(c))
		label, fs := judge(c, a, m, s, o)
		res.Outcome(a.Class + "/" + label)
		if strings.HasPrefix(label, "issued") {
			res.NontrivialCase(rc.String())
			res.Count("issued."+a.Class, 1)
			if len(fs) == 0 {
				res.Sample(map[string]any{"case": rc, "outcome": label})
			}
		}
		if len(fs) > 0 {
			// determinism: the same case must give the same verdict again
			o2 := call(c, a, m, s, tt.Secs(c))
			label2, fs2 := judge(c, a, m, s, o2)
			if label2 != label || kinds(fs2) != kinds(fs) {
				res.Infra = fmt.Sprintf("case %s is not deterministic: %s %s, then %s %s", rc, label, kinds(fs), label2, kinds(fs2))
			}
		}
		for _, f := range fs {
			res.Violate(violationKey(f.kind, rc, a, m), rc.String()+": "+f.desc, rc)
		}
	}

	if replaying {
		var rc replayCase
		if err := engine.ReadReplay(env.Replay, &rc); err != nil {
			t.Fatalf("replay: %v", err)
		}
		find := func(n int, name func(int) string, want string) int {
			for i := 0; i < n; i++ {
				if name(i) == want {
					return i
				}
			}
			t.Fatalf("replay: unknown element %q", want)
			return -1
		}
		runCase(
			find(len(cas), func(i int) string { return cas[i].Name }, rc.CA),
			find(len(auths), func(i int) string { return auths[i].Name }, rc.Auth),
			find(len(ms), func(i int) string { return ms[i].Name }, rc.Meta),
			find(len(csrs), func(i int) string { return csrs[i].Name }, rc.CSR),
			find(len(ts), func(i int) string { return ts[i].Name }, rc.TTL),
		)
		return
	}

	// calibration: the plain request of every caller marked Baseline must be served, and the answer must
	// be clean or flagged for a reason other than a broken harness; otherwise the run proves nothing.
	for ci := range cas {
		for ai := range auths {
			if !auths[ai].Baseline {
				continue
			}
			o := call(cas[ci], &auths[ai], &ms[0], &csrs[0], ts[3].Secs(cas[ci]))
			if o.Resp == nil {
				res.Infra = fmt.Sprintf("calibration: %s/%s/plain request was not served (code %s panic %q)", cas[ci].Name, auths[ai].Name, o.Code, o.Panic)
				return
			}
			// the two readers of the leaf must agree wherever both work
			blk, _ := pem.Decode([]byte(o.Resp.CertChain[0]))
			vx, err1 := viewX509(blk.Bytes)
			vl, err2 := viewLite(blk.Bytes)
			if err1 != nil || err2 != nil || vx.IsCA != vl.IsCA || vx.CertSign != vl.CertSign || vx.CN != vl.CN || !bytes.Equal(vx.SPKI, vl.SPKI) ||
				!vx.NotAfter.Equal(vl.NotAfter) || !vx.NotBefore.Equal(vl.NotBefore) {
				res.Infra = fmt.Sprintf("calibration: the two leaf readers disagree: %+v (%v) vs %+v (%v)", vx, err1, vl, err2)
				return
			}
		}
	}

	dims := []int{len(cas), len(auths), len(ms), len(csrs), len(ts)}
	total := int64(1)
	for _, d := range dims {
		total *= int64(d)
	}
	res.Bounds["ca_configs"] = len(cas)
	res.Bounds["auth_scenarios"] = len(auths)
	res.Bounds["metadata"] = len(ms)
	res.Bounds["csrs"] = len(csrs)
	res.Bounds["ttls"] = len(ts)
	res.Bounds["product"] = total
	engine.Product(dims, func(ord int64, idx []int) bool {
		if !env.Mine(ord) {
			return true
		}
		if env.Expired() {
			res.Cap(fmt.Sprintf("deadline at case %d of %d", ord, total))
			return false
		}
		runCase(idx[0], idx[1], idx[2], idx[3], idx[4])
		return true
	})
}
