// C10: the case space. A case is a finite set of PeerAuthentication policies; the workload, its ports
// and the client are fixed (see constants). Everything here is plain data so that a case can be
// written out as a replay value.
package c10

import (
	"fmt"
	"sort"
	"strings"
	"time"

	metav1 "k8s.io/apimachinery/pkg/apis/meta/v1"
	"k8s.io/apimachinery/pkg/types"

	"istio.io/api/security/v1beta1"
	typev1beta1 "istio.io/api/type/v1beta1"
	securityclient "istio.io/client-go/pkg/apis/security/v1"
	"istio.io/istio/pkg/config"
	"istio.io/istio/pkg/config/schema/gvk"
	"istio.io/istio/zz_verif/engine"
)

const (
	rootNS   = "istio-system"
	wlNS     = "ns1"
	otherNS  = "ns2"
	clientNS = "client"

	baseTS = int64(1700000000)
)

// the workload under test
var wlLabels = map[string]string{"app": "a", "version": "v1", "security.istio.io/tlsMode": "istio"}

// workload ports. Service ports differ from workload (target) ports where possible so that a
// resolver keyed on the wrong one is visible.
const (
	portHTTP   = uint32(8080) // service port 80, protocol HTTP
	portTCP    = uint32(9000) // service port 9000, protocol TCP
	portAuto   = uint32(7070) // service port 7000, protocol undeclared (sniffed)
	portNoSvc  = uint32(5555) // workload port no service declares
	portNoSvc2 = uint32(6666) // another one, never named by any policy
	svcHTTP    = uint32(80)   // the *service* port number of the HTTP port; as a workload port it is undeclared
)

// ports that policies may name in portLevelMtls
var policyPorts = []uint32{portHTTP, portTCP, portAuto, portNoSvc}

// ports whose effective mode is evaluated
var evalPorts = []uint32{portHTTP, portTCP, portAuto, portNoSvc, portNoSvc2, svcHTTP}

// service target ports (the client side only knows these)
var servicePorts = []uint32{portHTTP, portTCP, portAuto}

type mode int

const (
	mUnset mode = iota
	mDisable
	mPermissive
	mStrict
)

var modeNames = [...]string{"UNSET", "DISABLE", "PERMISSIVE", "STRICT"}

func (m mode) String() string { return modeNames[m] }

func (m mode) api() v1beta1.PeerAuthentication_MutualTLS_Mode {
	switch m {
	case mDisable:
		return v1beta1.PeerAuthentication_MutualTLS_DISABLE
	case mPermissive:
		return v1beta1.PeerAuthentication_MutualTLS_PERMISSIVE
	case mStrict:
		return v1beta1.PeerAuthentication_MutualTLS_STRICT
	}
	return v1beta1.PeerAuthentication_MutualTLS_UNSET
}

// selector kinds
const (
	selNone     = 0 // no selector field
	selEmpty    = 1 // selector: {} (valid, "specified without labels" warning; means no selector)
	selMatch    = 2 // {app: a}
	selNoMatch  = 3 // {app: b}
	selMatchTwo = 4 // {app: a, version: v1}
)

// pol is one PeerAuthentication.
type pol struct {
	Name      string        `json:"name"`
	Namespace string        `json:"namespace"`
	Sel       int           `json:"selector"`
	Mode      mode          `json:"mode"`
	NilMtls   bool          `json:"nil_mtls,omitempty"` // UNSET expressed by leaving out the mtls field
	Ports     []portSetting `json:"ports,omitempty"`
	TS        int64         `json:"ts"`
}

type portSetting struct {
	Port uint32 `json:"port"`
	Mode mode   `json:"mode"`
}

type caseT struct {
	Pols []pol `json:"policies"`
}

func (p pol) String() string {
	var b strings.Builder
	fmt.Fprintf(&b, "%s/%s", p.Namespace, p.Name)
	switch p.Sel {
	case selEmpty:
		b.WriteString("[sel={}]")
	case selMatch:
		b.WriteString("[sel=app:a]")
	case selNoMatch:
		b.WriteString("[sel=app:b]")
	case selMatchTwo:
		b.WriteString("[sel=app:a,version:v1]")
	}
	if p.Mode == mUnset && p.NilMtls {
		b.WriteString(" mtls=-")
	} else {
		fmt.Fprintf(&b, " mtls=%s", p.Mode)
	}
	for _, ps := range p.Ports {
		fmt.Fprintf(&b, " %d:%s", ps.Port, ps.Mode)
	}
	fmt.Fprintf(&b, " t%+d", p.TS-baseTS)
	return b.String()
}

func (c caseT) String() string {
	s := make([]string, 0, len(c.Pols))
	for _, p := range c.Pols {
		s = append(s, p.String())
	}
	if len(s) == 0 {
		return "(no policy)"
	}
	return strings.Join(s, " ; ")
}

func (p pol) selector() *typev1beta1.WorkloadSelector {
	switch p.Sel {
	case selEmpty:
		return &typev1beta1.WorkloadSelector{}
	case selMatch:
		return &typev1beta1.WorkloadSelector{MatchLabels: map[string]string{"app": "a"}}
	case selNoMatch:
		return &typev1beta1.WorkloadSelector{MatchLabels: map[string]string{"app": "b"}}
	case selMatchTwo:
		return &typev1beta1.WorkloadSelector{MatchLabels: map[string]string{"app": "a", "version": "v1"}}
	}
	return nil
}

func (p pol) spec() *v1beta1.PeerAuthentication {
	s := &v1beta1.PeerAuthentication{Selector: p.selector()}
	if !(p.Mode == mUnset && p.NilMtls) {
		s.Mtls = &v1beta1.PeerAuthentication_MutualTLS{Mode: p.Mode.api()}
	}
	if len(p.Ports) > 0 {
		s.PortLevelMtls = map[uint32]*v1beta1.PeerAuthentication_MutualTLS{}
		for _, ps := range p.Ports {
			s.PortLevelMtls[ps.Port] = &v1beta1.PeerAuthentication_MutualTLS{Mode: ps.Mode.api()}
		}
	}
	return s
}

// asConfig is the policy as the sidecar control plane stores it.
func (p pol) asConfig() config.Config {
	return config.Config{
		Meta: config.Meta{
			GroupVersionKind:  gvk.PeerAuthentication,
			Name:              p.Name,
			Namespace:         p.Namespace,
			CreationTimestamp: time.Unix(p.TS, 0).UTC(),
			UID:               "uid-" + p.Namespace + "-" + p.Name,
			ResourceVersion:   "1",
		},
		Spec: p.spec(),
	}
}

// asKube is the policy as the ambient index receives it from the informer.
func (p pol) asKube() *securityclient.PeerAuthentication {
	s := p.spec()
	return &securityclient.PeerAuthentication{
		ObjectMeta: metav1.ObjectMeta{
			Name:              p.Name,
			Namespace:         p.Namespace,
			CreationTimestamp: metav1.NewTime(time.Unix(p.TS, 0).UTC()),
			UID:               types.UID("uid-" + p.Namespace + "-" + p.Name),
			ResourceVersion:   "1",
		},
		Spec: v1beta1.PeerAuthentication{Selector: s.Selector, Mtls: s.Mtls, PortLevelMtls: s.PortLevelMtls},
	}
}

// ---- enumeration ---------------------------------------------------------------------------

// first-policy mode choice at mesh / namespace level: index 0 = no policy, 1..4 = modes
func levelChoice(i int, name, ns string) []pol {
	if i == 0 {
		return nil
	}
	return []pol{{Name: name, Namespace: ns, Sel: selNone, Mode: mode(i - 1), NilMtls: true, TS: baseTS}}
}

// port-level choices with at most one entry: index 0 = none, then (port, mode)
func singlePortChoices() [][]portSetting {
	out := [][]portSetting{nil}
	for _, p := range policyPorts {
		for m := mUnset; m <= mStrict; m++ {
			out = append(out, []portSetting{{p, m}})
		}
	}
	return out
}

// port-level choices with exactly two entries on distinct ports
func doublePortChoices() [][]portSetting {
	var out [][]portSetting
	for i := 0; i < len(policyPorts); i++ {
		for j := i + 1; j < len(policyPorts); j++ {
			for m1 := mUnset; m1 <= mStrict; m1++ {
				for m2 := mUnset; m2 <= mStrict; m2++ {
					out = append(out, []portSetting{{policyPorts[i], m1}, {policyPorts[j], m2}})
				}
			}
		}
	}
	return out
}

// workload-level first policy choices
func workloadChoices(ports [][]portSetting, withNone bool) [][]pol {
	var out [][]pol
	if withNone {
		out = append(out, nil)
	}
	for m := mUnset; m <= mStrict; m++ {
		for _, ps := range ports {
			out = append(out, []pol{{Name: "w1", Namespace: wlNS, Sel: selMatch, Mode: m, NilMtls: true, Ports: ps, TS: baseTS}})
		}
	}
	if withNone {
		// a policy whose selector does not match must be ignored whatever it says
		out = append(out,
			[]pol{{Name: "w1", Namespace: wlNS, Sel: selNoMatch, Mode: mStrict, TS: baseTS}},
			[]pol{{Name: "w1", Namespace: wlNS, Sel: selNoMatch, Mode: mDisable, Ports: []portSetting{{portHTTP, mStrict}}, TS: baseTS}},
		)
	}
	return out
}

// second-policy choices: one more policy at one level, older / tied / younger than the first ones
func secondChoices() [][]pol {
	out := [][]pol{nil}
	type age struct {
		name string
		dt   int64
	}
	// the name order is chosen against the age order, so that a resolver that sorts by name only
	// (or by age only on ties) is visible
	ages := []age{{"z2", -60}, {"a2", 0}, {"z2", 0}, {"a2", +60}}
	add := func(ns string, sel int, ports [][]portSetting) {
		for m := mUnset; m <= mStrict; m++ {
			for _, a := range ages {
				for _, ps := range ports {
					out = append(out, []pol{{Name: a.name, Namespace: ns, Sel: sel, Mode: m, Ports: ps, TS: baseTS + a.dt}})
				}
			}
		}
	}
	none := [][]portSetting{nil}
	add(rootNS, selNone, none)                                                                  // a second mesh-level policy
	add(wlNS, selNone, none)                                                                    // a second namespace-level policy
	add(wlNS, selMatchTwo, [][]portSetting{nil, {{portHTTP, mStrict}}, {{portHTTP, mDisable}}}) // a second matching workload policy
	add(otherNS, selNone, none)                                                                 // a namespace-level policy of another namespace: never applies
	add(rootNS, selMatch, [][]portSetting{nil, {{portHTTP, mStrict}}})                          // a selector policy in the root namespace: not a mesh policy, not in the workload's namespace
	return out
}

// form variants: the same policy set written differently
const (
	formCanonical     = 0 // UNSET = no mtls field, no selector field
	formExplicitUnset = 1 // UNSET = mtls: {mode: UNSET}
	formEmptySelector = 2 // selector-less policies carry selector: {}
	nForms            = 3
)

// applyForm rewrites the case; ok=false when the variant does not change anything.
func applyForm(c caseT, form int) (caseT, bool) {
	if form == formCanonical {
		return c, true
	}
	out := caseT{Pols: append([]pol(nil), c.Pols...)}
	changed := false
	for i := range out.Pols {
		p := &out.Pols[i]
		switch form {
		case formExplicitUnset:
			if p.Mode == mUnset && p.NilMtls {
				p.NilMtls = false
				changed = true
			}
		case formEmptySelector:
			if p.Sel == selNone {
				p.Sel = selEmpty
				changed = true
			}
		}
	}
	return out, changed
}

type space struct {
	wlSingle, wlDouble [][]pol
	second             [][]pol
	dimsA, dimsB       []int
	sizeA, sizeB       int64
}

func newSpace() *space {
	s := &space{
		wlSingle: workloadChoices(singlePortChoices(), true),
		wlDouble: workloadChoices(doublePortChoices(), false),
		second:   secondChoices(),
	}
	// block A: mesh x namespace x workload(<=1 port entry) x second policy x form
	s.dimsA = []int{5, 5, len(s.wlSingle), len(s.second), nForms}
	// block B: mesh x namespace x workload(2 port entries) x form
	s.dimsB = []int{5, 5, len(s.wlDouble), nForms}
	s.sizeA, s.sizeB = 1, 1
	for _, d := range s.dimsA {
		s.sizeA *= int64(d)
	}
	for _, d := range s.dimsB {
		s.sizeB *= int64(d)
	}
	return s
}

// caseInfo says where in the space a case sits (used to define the quick subset of part b).
type caseInfo struct {
	block         byte
	mesh, ns      int
	wl, second    int
	form          int
	wlPol, secPol []pol
}

func (s *space) build(ci caseInfo) (caseT, bool) {
	var c caseT
	c.Pols = append(c.Pols, levelChoice(ci.mesh, "m1", rootNS)...)
	c.Pols = append(c.Pols, levelChoice(ci.ns, "n1", wlNS)...)
	c.Pols = append(c.Pols, ci.wlPol...)
	c.Pols = append(c.Pols, ci.secPol...)
	// first policies are written with NilMtls (canonical); second policies explicit UNSET: both
	// spellings are therefore present in the canonical form too
	return applyForm(c, ci.form)
}

// canonical returns the canonical-spelling twin of a spelling variant (nil for canonical cases).
func (s *space) canonical(ci caseInfo) *caseT {
	if ci.form == formCanonical {
		return nil
	}
	ci.form = formCanonical
	c, _ := s.build(ci)
	return &c
}

// formApplies reports whether the spelling variant changes the case (without building it).
func formApplies(ci caseInfo) bool {
	switch ci.form {
	case formExplicitUnset:
		// first policies spell UNSET by leaving out the mtls field
		if ci.mesh == 1 || ci.ns == 1 {
			return true
		}
		for _, p := range ci.wlPol {
			if p.Mode == mUnset && p.NilMtls {
				return true
			}
		}
		return false
	case formEmptySelector:
		if ci.mesh != 0 || ci.ns != 0 {
			return true
		}
		for _, p := range ci.secPol {
			if p.Sel == selNone {
				return true
			}
		}
		return false
	}
	return true
}

// each calls f for every case of the space with its ordinal; the case itself is built on demand with
// s.build(ci). Cases whose spelling variant is a no-op are skipped (they would repeat the canonical
// case) but keep their ordinal.
func (s *space) each(f func(ord int64, ci caseInfo) bool) {
	cont := true
	engine.Product(s.dimsA, func(ord int64, idx []int) bool {
		ci := caseInfo{block: 'A', mesh: idx[0], ns: idx[1], wl: idx[2], second: idx[3], form: idx[4], wlPol: s.wlSingle[idx[2]], secPol: s.second[idx[3]]}
		if !formApplies(ci) {
			return true
		}
		cont = f(ord, ci)
		return cont
	})
	if !cont {
		return
	}
	engine.Product(s.dimsB, func(ord int64, idx []int) bool {
		ci := caseInfo{block: 'B', mesh: idx[0], ns: idx[1], wl: idx[2], form: idx[3], wlPol: s.wlDouble[idx[2]]}
		if !formApplies(ci) {
			return true
		}
		return f(s.sizeA+ord, ci)
	})
}

func sortedPorts(m map[uint32]mode) []uint32 {
	out := make([]uint32, 0, len(m))
	for p := range m {
		out = append(out, p)
	}
	sort.Slice(out, func(i, j int) bool { return out[i] < out[j] })
	return out
}
