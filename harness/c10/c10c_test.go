// C10 part c: the ambient output under every arrival order. Part a feeds the ambient collections a
// finished configuration; here the same collections (PolicyCollections + Builder.WorkloadsCollection,
// with krt dependency tracking) keep running inside a testing/synctest bubble while PeerAuthentication
// objects are created, replaced and deleted one at a time. After every step, at quiescence, what node
// proxies would be sent (all policies + the pod's policy references) is judged by R6 for the
// configuration that exists at that moment, and compared with what the same collections yield when
// that configuration is present from the start.
package c10

import (
	"encoding/json"
	"fmt"
	"sort"
	"strings"
	"testing"
	"testing/synctest"

	securityclient "istio.io/client-go/pkg/apis/security/v1"
	"istio.io/istio/pilot/pkg/model"
	"istio.io/istio/pilot/pkg/serviceregistry/ambient"
	"istio.io/istio/pkg/workloadapi/security"
	"istio.io/istio/zz_verif/engine"
)

// ---- the object alphabet: four slots, each empty or holding one of a few policies. Names and
// creation times are fixed per slot and all different (no age ties here: part a has them).

type slotT struct {
	name   string
	level  string // for keys
	values []pol
}

func liveSlots() []slotT {
	modes := []mode{mUnset, mDisable, mPermissive, mStrict}
	var m, n, w []pol
	for _, md := range modes {
		m = append(m, pol{Name: "m1", Namespace: rootNS, Sel: selNone, Mode: md, NilMtls: true, TS: baseTS})
		n = append(n, pol{Name: "n1", Namespace: wlNS, Sel: selNone, Mode: md, NilMtls: true, TS: baseTS + 10})
	}
	for _, md := range modes {
		w = append(w, pol{Name: "w1", Namespace: wlNS, Sel: selMatch, Mode: md, NilMtls: true, TS: baseTS + 20})
		for _, pm := range []mode{mDisable, mPermissive, mStrict} {
			w = append(w, pol{Name: "w1", Namespace: wlNS, Sel: selMatch, Mode: md, NilMtls: true, Ports: []portSetting{{portHTTP, pm}}, TS: baseTS + 20})
		}
	}
	// an older competitor at one level: its arrival or departure changes which policy is the oldest
	o := []pol{
		{Name: "m0", Namespace: rootNS, Sel: selNone, Mode: mStrict, TS: baseTS - 60},
		{Name: "m0", Namespace: rootNS, Sel: selNone, Mode: mPermissive, TS: baseTS - 60},
		{Name: "n0", Namespace: wlNS, Sel: selNone, Mode: mStrict, TS: baseTS - 50},
		{Name: "n0", Namespace: wlNS, Sel: selNone, Mode: mDisable, TS: baseTS - 50},
		{Name: "w0", Namespace: wlNS, Sel: selMatchTwo, Mode: mStrict, Ports: []portSetting{{portHTTP, mPermissive}}, TS: baseTS - 40},
		{Name: "w0", Namespace: wlNS, Sel: selMatchTwo, Mode: mUnset, Ports: []portSetting{{portHTTP, mStrict}}, TS: baseTS - 40},
	}
	return []slotT{{"mesh", "mesh", m}, {"ns", "ns", n}, {"wl", "wl", w}, {"older", "older", o}}
}

// liveState: per slot the index of the value present, -1 = empty
type liveState [4]int

var emptyLive = liveState{-1, -1, -1, -1}

type liveOp struct {
	Slot int `json:"slot"`
	Val  int `json:"value"` // -1 = delete
}

func (s liveState) caseOf(slots []slotT) caseT {
	var c caseT
	for i, v := range s {
		if v >= 0 {
			c.Pols = append(c.Pols, slots[i].values[v])
		}
	}
	return c
}

func opKind(slots []slotT, before liveState, op liveOp) string {
	lv := slots[op.Slot].level
	if op.Slot == 3 {
		// the level of the competitor is that of the policy it holds (before or after)
		v := op.Val
		if v < 0 {
			v = before[3]
		}
		lv = "older-" + [...]string{"mesh", "mesh", "ns", "ns", "wl", "wl"}[v]
	}
	switch {
	case op.Val < 0:
		return "delete-" + lv
	case before[op.Slot] < 0:
		return "create-" + lv
	}
	return "update-" + lv
}

// opsFrom lists every op that changes the state.
func opsFrom(slots []slotT, s liveState) []liveOp {
	var out []liveOp
	for i := range slots {
		for v := -1; v < len(slots[i].values); v++ {
			if v != s[i] {
				out = append(out, liveOp{i, v})
			}
		}
	}
	return out
}

// ---- observation of a running graph

type liveObs struct {
	obs *observation
	raw string // canonical text of everything that would be sent
}

func snapshotLive(g *ambient.VerifPeerAuthGraph) liveObs {
	all, refs := g.Snapshot()
	if len(refs) != 1 {
		panic(fmt.Sprintf("live graph: %d workloads, want 1", len(refs)))
	}
	var keys []string
	for _, k := range refs {
		keys = k
	}
	o := &observation{AmbientPlain: map[uint32]bool{}, AmbientAuth: map[uint32]bool{}}
	judgeAmbient(all, keys, o)
	var raw []string
	for _, wa := range all {
		if wa.Authorization != nil {
			b, _ := json.Marshal(wa.Authorization)
			raw = append(raw, string(b))
		}
	}
	sort.Strings(raw)
	return liveObs{o, "refs=" + strings.Join(o.AmbientKeys, ",") + " policies=" + strings.Join(raw, ";")}
}

func kubeObjs(c caseT) []*securityclient.PeerAuthentication {
	var out []*securityclient.PeerAuthentication
	for _, p := range c.Pols {
		out = append(out, p.asKube())
	}
	return out
}

var liveWorkload = ambient.VerifWorkload{Namespace: wlNS, Labels: wlLabels}

// runLive runs one history inside a bubble: start with `from` present, apply ops one by one, call
// step after each quiescence (step returns false to stop).
func runLive(t *testing.T, slots []slotT, from liveState, ops []liveOp, step func(i int, st liveState, o liveObs) bool) string {
	return engine.Bubble(t, func() {
		g := ambient.VerifNewPeerAuthGraph(rootNS, kubeObjs(from.caseOf(slots)), liveWorkload)
		defer func() {
			g.Close()
			synctest.Wait()
		}()
		synctest.Wait()
		if !g.Synced() {
			panic("live graph did not sync")
		}
		st := from
		if !step(-1, st, snapshotLive(g)) {
			return
		}
		for i, op := range ops {
			if op.Val < 0 {
				p := slots[op.Slot].values[st[op.Slot]]
				g.Delete(p.Namespace, p.Name)
			} else {
				if cur := st[op.Slot]; op.Slot == 3 && cur >= 0 && slots[3].values[cur].Name != slots[3].values[op.Val].Name {
					// the competitor moves to another level: that is a delete and a create
					p := slots[3].values[cur]
					g.Delete(p.Namespace, p.Name)
					synctest.Wait()
				}
				g.Set(slots[op.Slot].values[op.Val].asKube())
			}
			st[op.Slot] = op.Val
			synctest.Wait()
			if !step(i, st, snapshotLive(g)) {
				return
			}
		}
	})
}

type replayC10c struct {
	From liveState `json:"from"`
	Ops  []liveOp  `json:"ops"`
}

type liveChecker struct {
	t     *testing.T
	res   *engine.Result
	slots []slotT
	cold  map[liveState]liveObs
}

func (lc *liveChecker) coldOf(st liveState) liveObs {
	if o, ok := lc.cold[st]; ok {
		return o
	}
	var out liveObs
	if f := runLive(lc.t, lc.slots, st, nil, func(_ int, _ liveState, o liveObs) bool { out = o; return false }); f != "" {
		lc.t.Fatalf("cold start of %v: %s", st, f)
	}
	lc.cold[st] = out
	lc.res.Count("cold_starts", 1)
	return out
}

func describeOps(slots []slotT, from liveState, ops []liveOp) string {
	var s []string
	st := from
	for _, op := range ops {
		k := opKind(slots, st, op)
		if op.Val >= 0 {
			k += "(" + slots[op.Slot].values[op.Val].String() + ")"
		}
		s = append(s, k)
		st[op.Slot] = op.Val
	}
	return "start with {" + from.caseOf(slots).String() + "} then " + strings.Join(s, " -> ")
}

// history runs one history and judges every step. It reports whether the last operation changed
// the expected modes or the workload's references (the history's last step matters).
func (lc *liveChecker) history(from liveState, ops []liveOp) (lastStepMatters bool) {
	res := lc.res
	res.Evaluations++
	type stepT struct {
		i   int
		st  liveState
		o   liveObs
		e   expect
		mm  []mismatch
		bad bool
	}
	var steps []stepT
	// inside the bubble: observe and judge by R6 (a diverged history stops at its first bad step)
	fail := runLive(lc.t, lc.slots, from, ops, func(i int, st liveState, o liveObs) bool {
		e, mm, _ := judge(st.caseOf(lc.slots), o.obs)
		bad := len(mm) > 0 || len(o.obs.AmbientNoBody) > 0
		steps = append(steps, stepT{i, st, o, e, mm, bad})
		return !bad
	})
	if fail != "" {
		lc.t.Fatalf("%s: bubble: %s", describeOps(lc.slots, from, ops), fail)
	}
	// outside: report, and compare with a cold start of the same configuration (its own bubble)
	rp := replayC10c{From: from, Ops: ops}
	var prevSig, lastSig string
	prev := from
	for _, sp := range steps {
		res.Transitions++
		c := sp.st.caseOf(lc.slots)
		after := "cold-start"
		if sp.i >= 0 {
			after = opKind(lc.slots, prev, ops[sp.i])
		}
		prev = sp.st
		cold := lc.coldOf(sp.st)
		for _, m := range sp.mm {
			desc := fmt.Sprintf("%s: after step %d the configuration is {%s}; port %d: expected by precedence [%s]; the running collections send %s; the same collections started with this configuration send %s",
				describeOps(lc.slots, from, ops[:sp.i+1]), sp.i+1, c, m.port, expectString(sp.e), sp.o.raw, cold.raw)
			res.Violate("ambient-live:"+m.symptom+"|after="+after, desc, rp)
		}
		for _, k := range sp.o.obs.AmbientNoBody {
			desc := fmt.Sprintf("%s: after step %d the configuration is {%s}: the workload references %q but no such policy is served; expected by precedence [%s]; the running collections send %s; the same collections started with this configuration send %s",
				describeOps(lc.slots, from, ops[:sp.i+1]), sp.i+1, c, k, expectString(sp.e), sp.o.raw, cold.raw)
			res.Violate("ambient-live:referenced-policy-without-body|after="+after, desc, rp)
		}
		if !sp.bad && sp.i >= 0 && cold.raw != sp.o.raw {
			// history independence of the raw output: informative (an unreferenced left-over body would
			// not break the property), counted and sampled, not a violation
			res.Count("raw_output_differs_from_cold_start", 1)
			res.Sample(map[string]any{"history": describeOps(lc.slots, from, ops[:sp.i+1]), "live": sp.o.raw, "cold": cold.raw})
		}
		prevSig, lastSig = lastSig, expectString(sp.e)+" | refs "+strings.Join(sp.o.obs.AmbientKeys, ",")
		if sp.i == len(ops)-1 {
			res.Outcome(lastSig)
			lastStepMatters = len(ops) > 0 && prevSig != lastSig
		}
	}
	return lastStepMatters
}

func eachState(slots []slotT, f func(st liveState)) {
	dims := make([]int, len(slots))
	for i := range slots {
		dims[i] = len(slots[i].values) + 1
	}
	engine.Product(dims, func(_ int64, idx []int) bool {
		var st liveState
		for i := range idx {
			st[i] = idx[i] - 1
		}
		f(st)
		return true
	})
}

func TestC10c(t *testing.T) {
	env := engine.GetEnv()
	res := engine.NewResult("C10", "c-arrival-orders")
	res.Rule = "history = a start configuration + a sequence of single-object operations (create / replace / delete) on four PeerAuthentication slots {mesh-wide x4 modes, namespace-wide x4 modes, workload policy x4 modes x {no port entry, 8080:DISABLE/PERMISSIVE/STRICT}, an older competitor at mesh/namespace/workload level x2}; (i) every sequence of <=3 operations from the empty configuration (all arrival orders of up to 3 objects, create-update, create-delete); (ii) every arrival order of every complete 4-object configuration (quick: mesh-wide in {PERMISSIVE,STRICT} x namespace-wide in {UNSET,STRICT}); (iii) every single operation from every configuration present at start (thorough: every two operations); the real PolicyCollections + Builder.WorkloadsCollection run in a synctest bubble and are judged by R6 after every step at quiescence; non-trivial = history whose last operation changes the expected modes or the workload's policy references"
	defer res.Write(t, env)
	slots := liveSlots()
	lc := &liveChecker{t: t, res: res, slots: slots, cold: map[liveState]liveObs{}}

	if env.Replay != "" {
		var rp replayC10c
		if err := engine.ReadReplay(env.Replay, &rp); err != nil {
			t.Fatal(err)
		}
		lc.history(rp.From, rp.Ops)
		t.Log(describeOps(slots, rp.From, rp.Ops))
		return
	}

	var ord int64
	stop := false
	run := func(from liveState, ops []liveOp) {
		ord++
		if stop || !env.Mine(ord) {
			return
		}
		if res.Evaluations%64 == 0 && env.Expired() {
			res.Cap(fmt.Sprintf("deadline at history %d", ord))
			stop = true
			return
		}
		if lc.history(from, append([]liveOp(nil), ops...)) {
			res.NontrivialCase(fmt.Sprint(ord))
		}
		if res.Evaluations%1499 == 0 {
			// determinism: the same history again gives the same final output
			var a, b string
			runLive(t, slots, from, ops, func(i int, _ liveState, o liveObs) bool { a = o.raw; return true })
			runLive(t, slots, from, ops, func(i int, _ liveState, o liveObs) bool { b = o.raw; return true })
			if a != b {
				res.Infra = "nondeterministic output for " + describeOps(slots, from, ops)
				stop = true
			}
		}
	}

	// (i) every sequence of up to 3 operations from the empty configuration
	var rec func(st liveState, ops []liveOp, depth int)
	rec = func(st liveState, ops []liveOp, depth int) {
		if len(ops) > 0 {
			run(emptyLive, ops)
		}
		if depth == 0 {
			return
		}
		for _, op := range opsFrom(slots, st) {
			nx := st
			nx[op.Slot] = op.Val
			rec(nx, append(ops, op), depth-1)
		}
	}
	rec(emptyLive, nil, 3)
	res.Bounds["i_sequences_from_empty_depth<=3"] = ord
	mark := ord

	// (ii) every arrival order of every complete configuration (4 objects)
	eachState(slots, func(st liveState) {
		for _, v := range st {
			if v < 0 {
				return
			}
		}
		if !env.Thorough() && !(st[0] >= 2 && (st[1] == 0 || st[1] == 3)) {
			// quick: mesh-wide in {PERMISSIVE, STRICT} x namespace-wide in {UNSET, STRICT} (the pairs
			// that decide whether strictness is inherited); thorough: all 16 pairs
			return
		}
		engine.Permutations(4, func(_ int64, perm []int) bool {
			ops := make([]liveOp, 0, 4)
			for _, s := range perm {
				ops = append(ops, liveOp{s, st[s]})
			}
			run(emptyLive, ops)
			return true
		})
	})
	res.Bounds["ii_arrival_orders_of_complete_configurations"] = ord - mark
	mark = ord

	// (iii) every operation (thorough: every two operations) from every configuration present at start
	eachState(slots, func(st liveState) {
		for _, op := range opsFrom(slots, st) {
			run(st, []liveOp{op})
			if env.Thorough() {
				nx := st
				nx[op.Slot] = op.Val
				for _, op2 := range opsFrom(slots, nx) {
					run(st, []liveOp{op, op2})
				}
			}
		}
	})
	res.Bounds["iii_operations_from_every_start_configuration"] = ord - mark
	res.Bounds["histories_total"] = ord
	res.States = int64(len(lc.cold))
}

// judgeAmbient fills the ambient fields of an observation from served policies + attached keys.
func judgeAmbient(all []model.WorkloadAuthorization, keys []string, o *observation) {
	bodies := map[string]*security.Authorization{}
	for _, wa := range all {
		if wa.Authorization != nil {
			bodies[wa.ResourceName()] = wa.Authorization
		}
	}
	o.AmbientKeys = append([]string(nil), keys...)
	sort.Strings(o.AmbientKeys)
	var attached []*security.Authorization
	for _, k := range o.AmbientKeys {
		if b := bodies[k]; b != nil {
			attached = append(attached, b)
		} else {
			o.AmbientNoBody = append(o.AmbientNoBody, k)
		}
	}
	for _, q := range evalPorts {
		o.AmbientPlain[q] = !allowed(attached, conn{port: q})
		o.AmbientAuth[q] = !allowed(attached, conn{principal: "cluster.local/ns/" + clientNS + "/sa/default", namespace: clientNS, port: q})
	}
}
