// C10: running the real resolvers on a case (no listener build): sidecar PolicyApplier, client-side
// mtls_checker / BestEffortInferServiceMTLSMode, ambient conversion; plus the interpreter for the
// ztunnel Authorization API used to judge the ambient output.
package c10

import (
	"fmt"
	"strings"

	securityclient "istio.io/client-go/pkg/apis/security/v1"
	"istio.io/istio/pilot/pkg/model"
	"istio.io/istio/pilot/pkg/security/authn"
	"istio.io/istio/pilot/pkg/serviceregistry/ambient"
	"istio.io/istio/pilot/pkg/xds/endpoints"
	"istio.io/istio/pkg/config"
	"istio.io/istio/pkg/config/mesh/meshwatcher"
	"istio.io/istio/pkg/config/schema/collection"
	"istio.io/istio/pkg/config/schema/collections"
	"istio.io/istio/pkg/config/schema/gvk"
	"istio.io/istio/pkg/util/sets"
	"istio.io/istio/pkg/workloadapi/security"
)

// staticStore is a read-only model.ConfigStore holding the PeerAuthentication objects of one case.
type staticStore struct{ pas []config.Config }

func (s staticStore) Schemas() collection.Schemas { return collections.Pilot }
func (s staticStore) Get(typ config.GroupVersionKind, name, namespace string) *config.Config {
	for i := range s.pas {
		if typ == gvk.PeerAuthentication && s.pas[i].Name == name && s.pas[i].Namespace == namespace {
			c := s.pas[i].DeepCopy()
			return &c
		}
	}
	return nil
}

func (s staticStore) List(typ config.GroupVersionKind, namespace string) []config.Config {
	if typ != gvk.PeerAuthentication {
		return nil
	}
	var out []config.Config
	for _, c := range s.pas {
		if namespace == "" || c.Namespace == namespace {
			out = append(out, c)
		}
	}
	return out
}
func (s staticStore) Create(config.Config) (string, error)       { panic("read-only") }
func (s staticStore) Update(config.Config) (string, error)       { panic("read-only") }
func (s staticStore) UpdateStatus(config.Config) (string, error) { panic("read-only") }
func (s staticStore) Delete(config.GroupVersionKind, string, string, *string) error {
	panic("read-only")
}

var meshWatcher = meshwatcher.NewTestWatcher(nil) // default mesh config: rootNamespace istio-system

func authnPoliciesOf(c caseT) *model.AuthenticationPolicies {
	st := staticStore{}
	for _, p := range c.Pols {
		st.pas = append(st.pas, p.asConfig())
	}
	env := &model.Environment{ConfigStore: st, Watcher: meshWatcher}
	if env.Mesh().GetRootNamespace() != rootNS {
		panic("unexpected root namespace " + env.Mesh().GetRootNamespace())
	}
	return model.VerifInitAuthenticationPolicies(env)
}

var nsService = &model.Service{Hostname: "srv.ns1.example", Attributes: model.ServiceAttributes{Name: "srv", Namespace: wlNS}}

// observeResolvers runs comparisons (1), (3) and (4) of the design on the real code.
func observeResolvers(c caseT) *observation {
	o := &observation{
		Sidecar: map[uint32]string{}, Client: map[uint32]bool{}, ClientScoped: map[uint32]bool{},
		AmbientPlain: map[uint32]bool{}, AmbientAuth: map[uint32]bool{},
	}
	ap := authnPoliciesOf(c)

	// (1) the server side resolver
	server := authn.NewMtlsPolicy(nil, ap, wlNS, wlLabels, false)
	for _, q := range evalPorts {
		o.Sidecar[q] = server.GetMutualTLSModeForPort(q).String()
	}

	// (3) the client side: per endpoint port, with the full policy set and through the view a client
	// sidecar in another namespace keeps (its own namespace, the root namespace, namespaces of
	// imported services)
	scoped := ap.FilterPeerAuthenticationNamespaces(sets.New(clientNS, rootNS, wlNS))
	for _, q := range servicePorts {
		ep := &model.IstioEndpoint{Namespace: wlNS, Labels: wlLabels, EndpointPort: q, TLSMode: model.IstioMutualTLSModeLabel}
		// the checker is created per *service* port and asked about an endpoint's *target* port
		o.Client[q] = endpoints.VerifCheckMtlsEnabled(nil, ap, svcPortOf[q], nil, "", ep, false)
		o.ClientScoped[q] = endpoints.VerifCheckMtlsEnabled(nil, scoped, svcPortOf[q], nil, "", ep, false)
	}
	ps := &model.PushContext{}
	port := &model.Port{Name: "tcp", Port: int(portTCP)}
	o.NsView = ps.BestEffortInferServiceMTLSMode(ap, nil, nsService, port).String()
	o.NsViewScoped = ps.BestEffortInferServiceMTLSMode(scoped, nil, nsService, port).String()

	// (4) ambient
	observeAmbient(c, o)
	return o
}

func observeAmbient(c caseT, o *observation) {
	var objs []*securityclient.PeerAuthentication
	for _, p := range c.Pols {
		objs = append(objs, p.asKube())
	}
	all, keys := ambient.VerifPeerAuthPolicies(rootNS, objs, []ambient.VerifWorkload{{Namespace: wlNS, Labels: wlLabels}})
	judgeAmbient(all, keys[0], o)
}

// ---- interpreter of workloadapi/security.Authorization (as documented in authorization.proto and
// implemented by ztunnel): policy = OR of groups; group = AND of rules; rule = OR of its non-empty
// matches; match = AND over the field kinds that are set, values of one kind OR-ed, not_* negated;
// a match without any field never matches. A connection is refused when a DENY policy matches, or
// when ALLOW policies are attached and none matches.

type conn struct {
	principal string // "" = the peer presented no identity (plaintext)
	namespace string
	port      uint32
}

func allowed(pols []*security.Authorization, c conn) bool {
	allows, allowHit := 0, false
	for _, p := range pols {
		if p.DryRun {
			continue
		}
		hit := policyMatches(p, c)
		switch p.Action {
		case security.Action_DENY:
			if hit {
				return false
			}
		case security.Action_ALLOW:
			allows++
			allowHit = allowHit || hit
		default:
			panic(fmt.Sprintf("interpreter: action %v", p.Action))
		}
	}
	return allows == 0 || allowHit
}

func policyMatches(p *security.Authorization, c conn) bool {
	for _, g := range p.Groups {
		all := true
		for _, r := range g.Rules {
			any := false
			for _, m := range r.Matches {
				if matchHolds(m, c) {
					any = true
					break
				}
			}
			if !any {
				all = false
				break
			}
		}
		if all {
			return true
		}
	}
	return false
}

func stringHolds(sm *security.StringMatch, v string) bool {
	switch t := sm.MatchType.(type) {
	case *security.StringMatch_Exact:
		return v == t.Exact
	case *security.StringMatch_Prefix:
		return strings.HasPrefix(v, t.Prefix)
	case *security.StringMatch_Suffix:
		return strings.HasSuffix(v, t.Suffix)
	case *security.StringMatch_Presence:
		return v != ""
	}
	panic("interpreter: empty StringMatch")
}

func anyString(l []*security.StringMatch, v string) bool {
	for _, sm := range l {
		if stringHolds(sm, v) {
			return true
		}
	}
	return false
}

func anyPort(l []uint32, p uint32) bool {
	for _, x := range l {
		if x == p {
			return true
		}
	}
	return false
}

func matchHolds(m *security.Match, c conn) bool {
	if len(m.SourceIps)+len(m.NotSourceIps)+len(m.DestinationIps)+len(m.NotDestinationIps)+len(m.ServiceAccounts)+len(m.NotServiceAccounts) > 0 {
		panic("interpreter: address / service-account matches are not modelled (never produced from PeerAuthentication)")
	}
	set := 0
	ok := true
	if len(m.Namespaces) > 0 {
		set++
		ok = ok && anyString(m.Namespaces, c.namespace)
	}
	if len(m.NotNamespaces) > 0 {
		set++
		ok = ok && !anyString(m.NotNamespaces, c.namespace)
	}
	if len(m.Principals) > 0 {
		set++
		ok = ok && anyString(m.Principals, c.principal)
	}
	if len(m.NotPrincipals) > 0 {
		set++
		ok = ok && !anyString(m.NotPrincipals, c.principal)
	}
	if len(m.DestinationPorts) > 0 {
		set++
		ok = ok && anyPort(m.DestinationPorts, c.port)
	}
	if len(m.NotDestinationPorts) > 0 {
		set++
		ok = ok && !anyPort(m.NotDestinationPorts, c.port)
	}
	return set > 0 && ok
}
