// C10 part a: the three resolvers of the effective mTLS mode (sidecar PolicyApplier, client-side
// mtls_checker / namespace view, ambient conversion) against the reference precedence function R6,
// exhaustively over the policy-set space of space_test.go.
package c10

import (
	"encoding/json"
	"fmt"
	"strings"
	"testing"

	"istio.io/istio/zz_verif/engine"
)

type replayC10 struct {
	Case caseT `json:"case"`
	// Canonical is the same policy set in canonical spelling when Case is a spelling variant.
	Canonical *caseT `json:"canonical,omitempty"`
}

func expectString(e expect) string {
	var s []string
	for _, q := range evalPorts {
		s = append(s, fmt.Sprintf("%d=%s", q, e.port[q]))
	}
	return strings.Join(s, " ")
}

func spellingOf(c caseT) string {
	var s []string
	for _, p := range c.Pols {
		if p.Sel == selEmpty {
			s = append(s, "selector:{}")
			break
		}
	}
	return strings.Join(s, "+")
}

// report judges one observation and records violations; returns the expectation used.
//
// Violation keys name the failing shape, not the concrete input:
//   - a case with an age tie between policies of different content: <component>:disagrees-on-age-tie|tie=<level>
//   - a spelling variant whose canonical twin is judged fine for that component and port:
//     <component>:<symptom>|spelling=<variant>
//   - otherwise <component>:<symptom>|wl=<workload-level mode>|portLevel=<entry for the port>|inherited=<namespace/mesh mode>
//
// The twin is only used to name the key; the verdict itself never depends on it.
func report(res *engine.Result, c caseT, canon *caseT, o *observation, observe func(caseT) *observation) expect {
	e, mm, pks := judge(c, o)
	if len(mm) == 0 && len(o.AmbientNoBody) == 0 {
		return e
	}
	ties := tieLevels(c, pks)
	ob, _ := json.Marshal(o)
	twinBad := map[string]bool{}
	spelling := ""
	if canon != nil {
		spelling = spellingOf(c)
		if spelling == "" {
			spelling = "mtls:{mode:UNSET}"
		}
		oc := observe(*canon)
		_, mmc, _ := judge(*canon, oc)
		for _, m := range mmc {
			twinBad[fmt.Sprintf("%s:%s:%d", m.component, m.symptom, m.port)] = true
		}
		for range oc.AmbientNoBody {
			twinBad["ambient:referenced-policy-without-body:0"] = true
		}
	}
	keyOf := func(component, symptom string, port uint32) string {
		switch {
		case ties != "":
			return component + ":disagrees-on-age-tie|tie=" + ties
		case canon != nil && !twinBad[fmt.Sprintf("%s:%s:%d", component, symptom, port)]:
			return component + ":" + symptom + "|spelling=" + spelling
		}
		return component + ":" + symptom + "|" + shape(c, e, port)
	}
	rp := replayC10{Case: c, Canonical: canon}
	for _, m := range mm {
		desc := fmt.Sprintf("policies {%s}; workload %s labels app=a,version=v1; port %d: expected by precedence [%s] (workload mode %s, namespace view %s from %s); observed %s %s",
			c, wlNS, m.port, expectString(e), e.wl, e.nsView, e.nsSrc, string(ob), m.detail)
		res.Violate(keyOf(m.component, m.symptom, m.port), desc, rp)
	}
	for _, k := range o.AmbientNoBody {
		desc := fmt.Sprintf("policies {%s}: the workload references ambient policy %q but no policy with that name is served to the node proxy (keys %v); expected by precedence [%s]",
			c, k, o.AmbientKeys, expectString(e))
		res.Violate(keyOf("ambient", "referenced-policy-without-body", 0), desc, rp)
	}
	return e
}

func nontrivial(c caseT, e expect) bool {
	// some applicable policy sets a mode (the answer is not just the default)
	for _, i := range []int{e.pk.M, e.pk.N, e.pk.W} {
		if i >= 0 && (c.Pols[i].Mode != mUnset || len(c.Pols[i].Ports) > 0) {
			return true
		}
	}
	return false
}

// inQuickA: the quick tier runs the whole product of policy sets in canonical spelling; the spelling
// variants (explicit UNSET, selector:{}) are added for every case without a competing second policy
// and for all two-entry port maps. Thorough adds them everywhere.
func inQuickA(ci caseInfo) bool {
	return ci.form == formCanonical || ci.block == 'B' || ci.second == 0
}

func TestC10a(t *testing.T) {
	env := engine.GetEnv()
	res := engine.NewResult("C10", "a-resolvers")
	res.Rule = "case = set of PeerAuthentication policies: mesh{none,4 modes} x namespace{none,4 modes} x workload policy{none, non-matching, matching x 4 modes x portLevelMtls(none | 1 entry on HTTP/TCP/auto/non-service port x 4 modes | 2 entries)} x one more policy {none | mesh, namespace, workload, other-namespace, root-with-selector x 4 modes x older/tie(name before, after)/younger} x spelling {canonical, explicit UNSET, selector:{}} (quick: spelling variants only without a second policy and for two-entry port maps); every case runs the real PolicyApplier, mtls_checker (full and client-scoped view), BestEffortInferServiceMTLSMode and the ambient PolicyCollections/buildWorkloadPolicies for 6 workload ports; non-trivial = an applicable policy sets a mode or a port-level entry (the answer is not the bare default)"
	defer res.Write(t, env)

	if env.Replay != "" {
		var rp replayC10
		if err := engine.ReadReplay(env.Replay, &rp); err != nil {
			t.Fatal(err)
		}
		o := observeResolvers(rp.Case)
		e := report(res, rp.Case, rp.Canonical, o, observeResolvers)
		res.Evaluations++
		ob, _ := json.MarshalIndent(o, "", " ")
		t.Logf("case %s\nexpected %s\nobserved %s", rp.Case, expectString(e), ob)
		return
	}

	sp := newSpace()
	res.Bounds["block_A_dims(mesh,ns,workload,second,spelling)"] = sp.dimsA
	res.Bounds["block_B_dims(mesh,ns,workload2ports,spelling)"] = sp.dimsB
	res.Bounds["ordinals_total"] = sp.sizeA + sp.sizeB
	res.Bounds["ports_evaluated"] = evalPorts
	var skipped, n int64
	var last int64 = -1
	sp.each(func(ord int64, ci caseInfo) bool {
		skipped += ord - last - 1 // ordinals whose spelling variant is a no-op
		last = ord
		if !env.Thorough() && !inQuickA(ci) {
			return true
		}
		n++
		if !env.Mine(ord) {
			return true
		}
		c, ok := sp.build(ci)
		if !ok {
			panic("formApplies and applyForm disagree for " + c.String())
		}
		if res.Evaluations%256 == 0 && env.Expired() {
			res.Cap(fmt.Sprintf("deadline at ordinal %d/%d", ord, sp.sizeA+sp.sizeB))
			return false
		}
		res.Evaluations++
		o := observeResolvers(c)
		if res.Evaluations%997 == 0 {
			// determinism: the same case again must give the same observation
			a, _ := json.Marshal(o)
			b, _ := json.Marshal(observeResolvers(c))
			if string(a) != string(b) {
				res.Infra = "nondeterministic observation for " + c.String()
				return false
			}
		}
		e := report(res, c, sp.canonical(ci), o, observeResolvers)
		res.Outcome(expectString(e) + " | ambient keys " + fmt.Sprint(len(o.AmbientKeys)))
		if nontrivial(c, e) {
			res.NontrivialCase(fmt.Sprint(ord))
		}
		if res.Evaluations%3001 == 1 {
			res.Sample(map[string]any{"case": c.String(), "expected": expectString(e), "observed": o})
		}
		return true
	})
	res.Bounds["cases_in_tier"] = n
	if env.Shard == 0 {
		res.Count("ordinals_skipped_noop_spelling", skipped)
	}
}
