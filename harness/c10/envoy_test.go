// C10: a small interpreter of Envoy's listener semantics (listener filters + filter-chain matching as
// documented for envoy.config.listener.v3.FilterChainMatch), used to decide what the generated
// virtualInbound listener does with a connection to a given destination port. Independent of istio's
// own simulation package.
package c10

import (
	"fmt"
	"sort"
	"strings"

	listener "github.com/envoyproxy/go-control-plane/envoy/config/listener/v3"
	tlsv3 "github.com/envoyproxy/go-control-plane/envoy/extensions/transport_sockets/tls/v3"
)

const (
	tlsInspectorName  = "envoy.filters.listener.tls_inspector"
	httpInspectorName = "envoy.filters.listener.http_inspector"
)

// what a client puts on the wire
type wire struct {
	name string
	tls  bool     // the first bytes are a TLS ClientHello
	alpn []string // ALPN offered in the ClientHello; for plaintext: what the HTTP inspector would detect
	mesh bool     // an istio sidecar's mutual TLS (client certificate available, istio ALPN)
	http bool     // plaintext that the HTTP inspector recognises as HTTP
}

var wires = []wire{
	{name: "plain-tcp"},
	{name: "plain-http1", alpn: []string{"http/1.1"}, http: true},
	{name: "plain-h2c", alpn: []string{"h2c"}, http: true},
	{name: "mtls-tcp", tls: true, mesh: true, alpn: []string{"istio-peer-exchange", "istio"}},
	{name: "mtls-legacy", tls: true, mesh: true, alpn: []string{"istio"}},
	{name: "mtls-http1", tls: true, mesh: true, alpn: []string{"istio-http/1.1", "istio", "http/1.1"}},
	{name: "mtls-h2", tls: true, mesh: true, alpn: []string{"istio-h2", "istio", "h2"}},
	{name: "tls-noalpn", tls: true},
	{name: "tls-h2", tls: true, alpn: []string{"h2", "http/1.1"}},
}

// what happens to it
const (
	vNoChain      = "no-chain"       // connection closed: no filter chain matches
	vPlain        = "plaintext"      // reaches a chain without TLS transport socket: bytes are taken as they are
	vMTLS         = "mtls"           // reaches a TLS transport socket that requires a client certificate
	vTLSNoClient  = "tls-no-client"  // reaches a TLS transport socket that does not require a client certificate
	vHandshakeErr = "handshake-fail" // plaintext bytes arrive at a TLS transport socket
)

func predicateHolds(p *listener.ListenerFilterChainMatchPredicate, port uint32) bool {
	switch r := p.Rule.(type) {
	case *listener.ListenerFilterChainMatchPredicate_OrMatch:
		for _, x := range r.OrMatch.Rules {
			if predicateHolds(x, port) {
				return true
			}
		}
		return false
	case *listener.ListenerFilterChainMatchPredicate_AndMatch:
		for _, x := range r.AndMatch.Rules {
			if !predicateHolds(x, port) {
				return false
			}
		}
		return true
	case *listener.ListenerFilterChainMatchPredicate_NotMatch:
		return !predicateHolds(r.NotMatch, port)
	case *listener.ListenerFilterChainMatchPredicate_AnyMatch:
		return r.AnyMatch
	case *listener.ListenerFilterChainMatchPredicate_DestinationPortRange:
		return int32(port) >= r.DestinationPortRange.Start && int32(port) < r.DestinationPortRange.End
	}
	panic(fmt.Sprintf("envoy interpreter: predicate %T", p.Rule))
}

func inspectorEnabled(l *listener.Listener, name string, port uint32) bool {
	for _, lf := range l.ListenerFilters {
		if lf.Name != name {
			continue
		}
		if lf.FilterDisabled == nil {
			return true
		}
		return !predicateHolds(lf.FilterDisabled, port)
	}
	return false
}

type chainInfo struct {
	name      string
	transport string
	alpn      []string
	tls       bool
	clientCrt bool
}

// selectChain follows Envoy's documented matching order: destination port (exact, else chains
// without port), then transport protocol (exact, else chains without), then application protocols
// (first offered protocol some chain lists, else chains without). No backtracking once a more
// specific level matched.
func selectChain(l *listener.Listener, port uint32, transport string, alpn []string) *listener.FilterChain {
	var cands []*listener.FilterChain
	for _, fc := range l.FilterChains {
		m := fc.FilterChainMatch
		if m == nil {
			m = &listener.FilterChainMatch{}
		}
		if len(m.PrefixRanges)+len(m.ServerNames)+len(m.SourcePrefixRanges)+len(m.SourcePorts)+len(m.DirectSourcePrefixRanges) > 0 ||
			m.SourceType != listener.FilterChainMatch_ANY || m.AddressSuffix != "" || m.SuffixLen != nil {
			panic("envoy interpreter: filter chain match criterion not modelled in chain " + fc.Name)
		}
		cands = append(cands, fc)
	}
	narrow := func(in []*listener.FilterChain, exact, wildcard func(m *listener.FilterChainMatch) bool) []*listener.FilterChain {
		var ex, wc []*listener.FilterChain
		for _, fc := range in {
			m := fc.FilterChainMatch
			if m == nil {
				m = &listener.FilterChainMatch{}
			}
			if exact(m) {
				ex = append(ex, fc)
			} else if wildcard(m) {
				wc = append(wc, fc)
			}
		}
		if len(ex) > 0 {
			return ex
		}
		return wc
	}
	cands = narrow(cands,
		func(m *listener.FilterChainMatch) bool {
			return m.DestinationPort != nil && m.DestinationPort.Value == port
		},
		func(m *listener.FilterChainMatch) bool { return m.DestinationPort == nil })
	cands = narrow(cands,
		func(m *listener.FilterChainMatch) bool {
			return m.TransportProtocol != "" && m.TransportProtocol == transport
		},
		func(m *listener.FilterChainMatch) bool { return m.TransportProtocol == "" })
	// application protocols: the first offered protocol that some chain lists wins
	var byAlpn []*listener.FilterChain
	for _, a := range alpn {
		for _, fc := range cands {
			for _, x := range fc.GetFilterChainMatch().GetApplicationProtocols() {
				if x == a {
					byAlpn = append(byAlpn, fc)
					break
				}
			}
		}
		if len(byAlpn) > 0 {
			break
		}
	}
	if len(byAlpn) == 0 {
		for _, fc := range cands {
			if len(fc.GetFilterChainMatch().GetApplicationProtocols()) == 0 {
				byAlpn = append(byAlpn, fc)
			}
		}
	}
	switch len(byAlpn) {
	case 0:
		return l.DefaultFilterChain
	case 1:
		return byAlpn[0]
	}
	// Envoy rejects a listener with two chains of identical match
	var n []string
	for _, fc := range byAlpn {
		n = append(n, fc.Name)
	}
	panic(fmt.Sprintf("envoy interpreter: ambiguous chains for port %d %s %v: %v", port, transport, alpn, n))
}

func describeChain(fc *listener.FilterChain) chainInfo {
	ci := chainInfo{name: fc.Name, transport: fc.GetFilterChainMatch().GetTransportProtocol(), alpn: fc.GetFilterChainMatch().GetApplicationProtocols()}
	if ts := fc.TransportSocket; ts != nil {
		ctx := &tlsv3.DownstreamTlsContext{}
		if err := ts.GetTypedConfig().UnmarshalTo(ctx); err != nil {
			panic("envoy interpreter: transport socket is not a DownstreamTlsContext: " + err.Error())
		}
		ci.tls = true
		ci.clientCrt = ctx.RequireClientCertificate.GetValue()
	}
	return ci
}

// verdict says what the listener does with the wire format w sent to destination port q.
func verdict(l *listener.Listener, q uint32, w wire) string {
	transport := "raw_buffer"
	var alpn []string
	if w.tls {
		if inspectorEnabled(l, tlsInspectorName, q) {
			transport = "tls"
			alpn = w.alpn
		}
		// without the TLS inspector Envoy sees opaque bytes: raw_buffer, no ALPN
	} else if w.http {
		if !inspectorEnabled(l, httpInspectorName, q) {
			return "" // indistinguishable from plain-tcp for this port
		}
		alpn = w.alpn
	}
	fc := selectChain(l, q, transport, alpn)
	if fc == nil {
		return vNoChain
	}
	ci := describeChain(fc)
	switch {
	case !ci.tls:
		return vPlain
	case !w.tls:
		return vHandshakeErr
	case ci.clientCrt:
		return vMTLS
	default:
		return vTLSNoClient
	}
}

// classify derives the enforced mode of destination port q from the listener alone:
//
//	STRICT      no plaintext form is taken as it is, no TLS form is passed through or terminated
//	            without client certificate, and every sidecar mTLS form is terminated with a
//	            required client certificate
//	DISABLE     no form reaches a TLS transport socket and every plaintext form is accepted
//	PERMISSIVE  every plaintext form is accepted and every sidecar mTLS form is terminated with a
//	            required client certificate
//
// anything else is reported as INCONSISTENT with the verdict table.
func classify(l *listener.Listener, q uint32) string {
	vs := map[string]string{}
	var tab []string
	for _, w := range wires {
		v := verdict(l, q, w)
		if v == "" {
			continue
		}
		vs[w.name] = v
		tab = append(tab, w.name+"="+v)
	}
	sort.Strings(tab)
	strict, disable, permissive := true, true, true
	for _, w := range wires {
		v, ok := vs[w.name]
		if !ok {
			continue
		}
		if !w.tls {
			strict = strict && v != vPlain
			disable = disable && v == vPlain
			permissive = permissive && v == vPlain
		} else {
			strict = strict && (v == vMTLS || v == vNoChain)
			disable = disable && (v == vPlain || v == vNoChain)
			permissive = permissive && v != vTLSNoClient
			if w.mesh {
				strict = strict && v == vMTLS
				permissive = permissive && v == vMTLS
			}
		}
	}
	switch {
	case strict && !disable && !permissive:
		return "STRICT"
	case disable && !strict && !permissive:
		return "DISABLE"
	case permissive && !strict && !disable:
		return "PERMISSIVE"
	}
	return "INCONSISTENT:" + strings.Join(tab, ",")
}
