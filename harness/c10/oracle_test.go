// C10: reference model R6 (DESIGN.md Appendix A.4), written from the PeerAuthentication API
// documentation: scope precedence, oldest-wins, UNSET inheritance, default PERMISSIVE.
package c10

import (
	"fmt"
	"sort"
	"strings"
)

func selLabels(sel int) map[string]string {
	switch sel {
	case selMatch:
		return map[string]string{"app": "a"}
	case selNoMatch:
		return map[string]string{"app": "b"}
	case selMatchTwo:
		return map[string]string{"app": "a", "version": "v1"}
	}
	return nil // selNone, selEmpty: no labels = not a workload policy
}

func subset(sel, labels map[string]string) bool {
	for k, v := range sel {
		if labels[k] != v {
			return false
		}
	}
	return true
}

// oldest returns the indices (into c.Pols) of the policies with the smallest creation time among
// those accepted by keep. More than one index = a tie in age.
func oldest(c caseT, keep func(p pol) bool) []int {
	var out []int
	var best int64
	for i, p := range c.Pols {
		if !keep(p) {
			continue
		}
		switch {
		case len(out) == 0 || p.TS < best:
			out, best = []int{i}, p.TS
		case p.TS == best:
			out = append(out, i)
		}
	}
	// documented tie-break of the sidecar control plane (model/config.go): name order. The check
	// accepts any tied policy, this only fixes the order in which picks are tried and reported.
	sort.SliceStable(out, func(a, b int) bool { return c.Pols[out[a]].Name < c.Pols[out[b]].Name })
	return out
}

// pick = the policy chosen at each level (-1: none)
type pick struct{ M, N, W int }

// picks lists every admissible choice of (mesh, namespace, workload) policy for a workload.
func picks(c caseT, ns string, labels map[string]string) []pick {
	ms := oldest(c, func(p pol) bool { return p.Namespace == rootNS && len(selLabels(p.Sel)) == 0 })
	var nsl, ws []int
	if ns != rootNS {
		nsl = oldest(c, func(p pol) bool { return p.Namespace == ns && len(selLabels(p.Sel)) == 0 })
		ws = oldest(c, func(p pol) bool {
			return p.Namespace == ns && len(selLabels(p.Sel)) > 0 && subset(selLabels(p.Sel), labels)
		})
	}
	opt := func(a []int) []int {
		if len(a) == 0 {
			return []int{-1}
		}
		return a
	}
	var out []pick
	for _, m := range opt(ms) {
		for _, n := range opt(nsl) {
			for _, w := range opt(ws) {
				out = append(out, pick{m, n, w})
			}
		}
	}
	return out
}

// expectation for one pick
type expect struct {
	pk     pick
	wl     mode            // mode(w)
	nsView mode            // mode of a workload of the namespace without workload policy
	nsSrc  string          // where nsView comes from: ns, mesh, default
	port   map[uint32]mode // mode(w, q) for every evaluated port
}

func r6(c caseT, pk pick) expect {
	e := expect{pk: pk, port: map[uint32]mode{}}
	e.nsView, e.nsSrc = mPermissive, "default"
	if pk.M >= 0 && c.Pols[pk.M].Mode != mUnset {
		e.nsView, e.nsSrc = c.Pols[pk.M].Mode, "mesh"
	}
	if pk.N >= 0 && c.Pols[pk.N].Mode != mUnset {
		e.nsView, e.nsSrc = c.Pols[pk.N].Mode, "ns"
	}
	e.wl = e.nsView
	if pk.W >= 0 && c.Pols[pk.W].Mode != mUnset {
		e.wl = c.Pols[pk.W].Mode
	}
	for _, q := range evalPorts {
		e.port[q] = e.wl
		if pk.W >= 0 {
			for _, ps := range c.Pols[pk.W].Ports {
				if ps.Port == q && ps.Mode != mUnset {
					e.port[q] = ps.Mode
				}
			}
		}
	}
	return e
}

// shape describes the part of a case that decides port q, for violation keys: one root cause = few keys.
func shape(c caseT, e expect, q uint32) string {
	wl, pl := "none", "none"
	if q == 0 {
		pl = "*"
	}
	if e.pk.W >= 0 {
		wl = c.Pols[e.pk.W].Mode.String()
		for _, ps := range c.Pols[e.pk.W].Ports {
			if ps.Port == q {
				pl = ps.Mode.String()
			}
		}
		if q != 0 && pl == "none" && len(c.Pols[e.pk.W].Ports) > 0 {
			pl = "none(other port set)"
		}
	}
	return fmt.Sprintf("wl=%s|portLevel=%s|inherited=%s", wl, pl, e.nsView)
}

// tieLevels names the levels at which two policies of equal age compete with different content.
func tieLevels(c caseT, pks []pick) string {
	var m, n, w = map[int]bool{}, map[int]bool{}, map[int]bool{}
	for _, p := range pks {
		m[p.M], n[p.N], w[p.W] = true, true, true
	}
	var out []string
	if len(m) > 1 {
		out = append(out, "mesh")
	}
	if len(n) > 1 {
		out = append(out, "ns")
	}
	if len(w) > 1 {
		out = append(out, "wl")
	}
	return strings.Join(out, "+")
}

// observation of the implementations for one case; every field is keyed by workload port
type observation struct {
	Sidecar       map[uint32]string `json:"sidecar"`                  // PolicyApplier / ComposePeerAuthentication
	Client        map[uint32]bool   `json:"client_mtls"`              // mtls_checker, all policies visible
	ClientScoped  map[uint32]bool   `json:"client_mtls_scoped"`       // mtls_checker through the client's filtered view
	NsView        string            `json:"ns_view"`                  // BestEffortInferServiceMTLSMode
	NsViewScoped  string            `json:"ns_view_scoped"`           //   through the filtered view
	AmbientPlain  map[uint32]bool   `json:"ambient_plaintext_denied"` // interpreter verdict for a peer without identity
	AmbientAuth   map[uint32]bool   `json:"ambient_mtls_denied"`      // interpreter verdict for a peer with identity
	AmbientKeys   []string          `json:"ambient_keys"`
	AmbientNoBody []string          `json:"ambient_keys_without_body,omitempty"`
	Listener      map[uint32]string `json:"listener,omitempty"` // part b: classification of the inbound chains
}

type mismatch struct {
	component string // sidecar, client, client-scoped, ns-view, ambient
	symptom   string
	port      uint32
	detail    string
}

// compare returns the mismatches of the observation against the expectation of one pick.
func compare(o *observation, e expect) []mismatch {
	var out []mismatch
	for _, q := range evalPorts {
		want := e.port[q]
		if o.Sidecar != nil {
			if got := o.Sidecar[q]; got != want.String() {
				out = append(out, mismatch{"sidecar", fmt.Sprintf("resolves-%s-want-%s", got, want), q, ""})
			}
		}
		if o.AmbientPlain != nil {
			if got := o.AmbientPlain[q]; got != (want == mStrict) {
				sym := "plaintext-accepted-on-STRICT-port"
				if got {
					sym = fmt.Sprintf("plaintext-denied-on-%s-port", want)
				}
				out = append(out, mismatch{"ambient", sym, q, ""})
			}
			if o.AmbientAuth[q] {
				out = append(out, mismatch{"ambient", "authenticated-peer-denied", q, ""})
			}
		}
		if o.Listener != nil {
			if got := o.Listener[q]; got != want.String() {
				out = append(out, mismatch{"listener", fmt.Sprintf("enforces-%s-want-%s", strings.SplitN(got, ":", 2)[0], want), q, got})
			}
		}
	}
	for _, q := range servicePorts {
		want := e.port[q] != mDisable
		if o.Client != nil {
			if got := o.Client[q]; got != want {
				out = append(out, mismatch{"client", fmt.Sprintf("mtls=%v-server-%s", got, e.port[q]), q, ""})
			}
		}
		if o.ClientScoped != nil {
			if got := o.ClientScoped[q]; got != want {
				out = append(out, mismatch{"client-scoped", fmt.Sprintf("mtls=%v-server-%s", got, e.port[q]), q, ""})
			}
		}
	}
	if o.NsView != "" && o.NsView != e.nsView.String() {
		out = append(out, mismatch{"ns-view", fmt.Sprintf("infers-%s-want-%s", o.NsView, e.nsView), 0, ""})
	}
	if o.NsViewScoped != "" && o.NsViewScoped != e.nsView.String() {
		out = append(out, mismatch{"ns-view-scoped", fmt.Sprintf("infers-%s-want-%s", o.NsViewScoped, e.nsView), 0, ""})
	}
	return out
}

// judge applies R6 with its tie rule: some admissible pick must explain every component at once.
// It returns the pick that explains most (the first one in name order among equals) and what it
// leaves unexplained.
func judge(c caseT, o *observation) (expect, []mismatch, []pick) {
	pks := picks(c, wlNS, wlLabels)
	var bestE expect
	var bestM []mismatch
	for i, pk := range pks {
		e := r6(c, pk)
		mm := compare(o, e)
		if i == 0 || len(mm) < len(bestM) {
			bestE, bestM = e, mm
		}
		if len(mm) == 0 {
			break
		}
	}
	return bestE, bestM, pks
}
