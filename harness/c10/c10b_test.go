// C10 part b: enforcement. For every case an istio environment is built from the config objects
// (core.NewConfigGenTest), the workload's sidecar gets its real virtualInbound listener, and the
// listener is judged by the Envoy interpreter of envoy_test.go per destination port. The server-side
// resolver (through the real proxy) and the client side (real endpoints, the client proxy's own
// scoped policy view) are compared again on this path.
package c10

import (
	"encoding/json"
	"fmt"
	"testing"
	"time"

	listener "github.com/envoyproxy/go-control-plane/envoy/config/listener/v3"

	networking "istio.io/api/networking/v1alpha3"
	"istio.io/istio/pilot/pkg/model"
	"istio.io/istio/pilot/pkg/networking/core"
	"istio.io/istio/pilot/pkg/security/authn"
	"istio.io/istio/pilot/pkg/xds/endpoints"
	"istio.io/istio/pkg/config"
	"istio.io/istio/pkg/config/schema/gvk"
	"istio.io/istio/pkg/test"
	"istio.io/istio/zz_verif/engine"
)

const (
	serverIP = "10.1.1.1"
	clientIP = "10.2.2.2"
	svcHost  = "srv.ns1.example"
)

func serviceEntry() config.Config {
	return config.Config{
		Meta: config.Meta{
			GroupVersionKind: gvk.ServiceEntry, Name: "srv", Namespace: wlNS,
			CreationTimestamp: time.Unix(baseTS-1000, 0).UTC(),
		},
		Spec: &networking.ServiceEntry{
			Hosts:      []string{svcHost},
			Location:   networking.ServiceEntry_MESH_INTERNAL,
			Resolution: networking.ServiceEntry_STATIC,
			Ports: []*networking.ServicePort{
				{Number: svcHTTP, Name: "http", Protocol: "HTTP", TargetPort: portHTTP},
				{Number: portTCP, Name: "tcp", Protocol: "TCP"},
				{Number: 7000, Name: "auto", TargetPort: portAuto}, // no protocol: sniffed
			},
			Endpoints: []*networking.WorkloadEntry{{Address: serverIP, Labels: wlLabels}},
		},
	}
}

var svcPortOf = map[uint32]int{portHTTP: int(svcHTTP), portTCP: int(portTCP), portAuto: 7000}

// observeOn runs the full path on an environment whose config store holds the case.
func observeOn(t test.Failer, cg *core.ConfigGenTest) *observation {
	o := &observation{Sidecar: map[uint32]string{}, ClientScoped: map[uint32]bool{}, Listener: map[uint32]string{}}
	server := cg.SetupProxy(&model.Proxy{
		ID: "srv-1." + wlNS, ConfigNamespace: wlNS, IPAddresses: []string{serverIP}, Labels: wlLabels,
		Metadata: &model.NodeMetadata{Namespace: wlNS, Labels: wlLabels},
	})
	client := cg.SetupProxy(&model.Proxy{
		ID: "cli-1." + clientNS, ConfigNamespace: clientNS, IPAddresses: []string{clientIP},
		Metadata: &model.NodeMetadata{Namespace: clientNS},
	})
	push := cg.PushContext()
	if len(server.ServiceTargets) != 3 {
		t.Fatalf("server proxy has %d service targets, want 3", len(server.ServiceTargets))
	}

	// (2) the inbound listener
	var vi *listener.Listener
	for _, l := range cg.Listeners(server) {
		if l.Name == model.VirtualInboundListenerName {
			vi = l
		}
	}
	if vi == nil {
		t.Fatal("no virtualInbound listener")
	}
	for _, q := range evalPorts {
		o.Listener[q] = classify(vi, q)
	}

	// (1) the server-side resolver through the proxy
	applier := authn.NewPolicyApplier(push, server, nil)
	for _, q := range evalPorts {
		o.Sidecar[q] = applier.GetMutualTLSModeForPort(q).String()
	}

	// (3) the client: real endpoints of the service, the client proxy's scoped policy view
	svc := push.ServiceForHostname(client, svcHost)
	if svc == nil {
		t.Fatal("client does not see the service")
	}
	view := client.SidecarScope.AuthnPolicies
	for _, q := range servicePorts {
		eps := push.ServiceEndpointsByPort(svc, svcPortOf[q], nil)
		if len(eps) != 1 || eps[0].EndpointPort != q {
			t.Fatalf("service port %d: endpoints %v", svcPortOf[q], eps)
		}
		o.ClientScoped[q] = endpoints.VerifCheckMtlsEnabled(push, view, svcPortOf[q], nil, "", eps[0], false)
	}
	p, _ := svc.Ports.GetByPort(int(portTCP))
	o.NsViewScoped = push.BestEffortInferServiceMTLSMode(view, nil, svc, p).String()
	return o
}

// observeFresh builds a new istio environment for the case (about 20 ms and ~1 MB that is only
// released at process exit: used for replays and for the periodic self-check of the shared one).
func observeFresh(c caseT) (o *observation, err error) {
	err = test.Wrap(func(t test.Failer) {
		cfgs := []config.Config{serviceEntry()}
		for _, p := range c.Pols {
			cfgs = append(cfgs, p.asConfig())
		}
		o = observeOn(t, core.NewConfigGenTest(t, core.TestOptions{Configs: cfgs}))
	})
	return o, err
}

// sharedEnv is one istio environment whose PeerAuthentication objects are swapped per case; every
// case gets a push context built from scratch from the store (what istiod does on a config change).
type sharedEnv struct {
	t   *testing.T
	cg  *core.ConfigGenTest
	cur []pol
}

func newSharedEnv(t *testing.T) *sharedEnv {
	return &sharedEnv{t: t, cg: core.NewConfigGenTest(t, core.TestOptions{Configs: []config.Config{serviceEntry()}})}
}

func (s *sharedEnv) observe(c caseT) *observation {
	st := s.cg.Store()
	for _, p := range s.cur {
		if err := st.Delete(gvk.PeerAuthentication, p.Name, p.Namespace, nil); err != nil {
			s.t.Fatalf("delete %s: %v", p, err)
		}
	}
	s.cur = nil
	for _, p := range c.Pols {
		if _, err := st.Create(p.asConfig()); err != nil {
			s.t.Fatalf("create %s: %v", p, err)
		}
		s.cur = append(s.cur, p)
	}
	if got := len(st.List(gvk.PeerAuthentication, "")); got != len(c.Pols) {
		s.t.Fatalf("store holds %d PeerAuthentications, want %d", got, len(c.Pols))
	}
	pc := model.NewPushContext()
	pc.InitContext(s.cg.Env(), nil, nil)
	s.cg.Env().SetPushContext(pc)
	return observeOn(s.t, s.cg)
}

// inQuickB defines the sub-product of the space that part b covers in the quick tier. What part b
// adds to part a (which always runs the whole space) is the mapping from the resolved modes to
// filter chains per port and protocol, the per-port passthrough chains, and the proxy-based policy
// lookup; the competing-policy and spelling dimensions add little to that. Quick therefore takes,
// in canonical spelling: every first-policy combination without a second policy (incl. all
// two-entry port maps), and every second policy against three representative workload policies.
func inQuickB(ci caseInfo) bool {
	if ci.form != formCanonical {
		return false
	}
	if ci.block == 'B' || ci.second == 0 || len(ci.wlPol) == 0 {
		return true
	}
	w := ci.wlPol[0]
	if w.Sel != selMatch || len(w.Ports) != 1 {
		return false
	}
	return (w.Mode == mUnset && w.Ports[0] == portSetting{portHTTP, mStrict}) || (w.Mode == mStrict && w.Ports[0] == portSetting{portNoSvc, mDisable})
}

func TestC10b(t *testing.T) {
	env := engine.GetEnv()
	res := engine.NewResult("C10", "b-listeners")
	res.Rule = "same case space as part a (quick: canonical spelling, every first-policy combination incl. all two-entry port maps, every second policy against {no workload policy, UNSET+8080:STRICT, STRICT+5555:DISABLE}; thorough: the whole space); per case the PeerAuthentication objects of a ConfigGenTest environment are replaced and a push context is built from scratch (cross-checked against a freshly built environment every 251 cases), the workload's real virtualInbound listener judged per destination port by an Envoy filter-chain interpreter over 9 wire formats (plaintext tcp/http1/h2c, sidecar mTLS tcp/legacy/http1/h2, foreign TLS with/without ALPN), plus server resolver through the proxy and client decision through the client proxy's scoped view; non-trivial = as in part a"
	defer res.Write(t, env)

	if env.Replay != "" {
		var rp replayC10
		if err := engine.ReadReplay(env.Replay, &rp); err != nil {
			t.Fatal(err)
		}
		o, err := observeFresh(rp.Case)
		if err != nil {
			t.Fatal(err)
		}
		e := report(res, rp.Case, rp.Canonical, o, mustObserveFresh(t))
		res.Evaluations++
		ob, _ := json.MarshalIndent(o, "", " ")
		t.Logf("case %s\nexpected %s\nobserved %s", rp.Case, expectString(e), ob)
		return
	}

	sp := newSpace()
	shared := newSharedEnv(t)
	res.Bounds["ordinals_total"] = sp.sizeA + sp.sizeB
	res.Bounds["ports_evaluated"] = evalPorts
	res.Bounds["wire_formats"] = len(wires)
	var n int64
	sp.each(func(ord int64, ci caseInfo) bool {
		if !env.Thorough() && !inQuickB(ci) {
			return true
		}
		n++
		if !env.Mine(n) {
			return true
		}
		c, ok := sp.build(ci)
		if !ok {
			panic("formApplies and applyForm disagree for " + c.String())
		}
		if env.Expired() {
			res.Cap(fmt.Sprintf("deadline at ordinal %d/%d", ord, sp.sizeA+sp.sizeB))
			return false
		}
		res.Evaluations++
		o := shared.observe(c)
		if res.Evaluations%251 == 1 {
			// self-check of the shared environment: a freshly built one must give the same observation
			o2, err := observeFresh(c)
			if err != nil {
				t.Fatalf("case %s: %v", c, err)
			}
			a, _ := json.Marshal(o)
			b, _ := json.Marshal(o2)
			if string(a) != string(b) {
				res.Infra = fmt.Sprintf("shared and fresh environment disagree for %s: %s vs %s", c, a, b)
				return false
			}
			res.Count("fresh_environment_cross_checks", 1)
		}
		e := report(res, c, sp.canonical(ci), o, shared.observe)
		out := ""
		for _, q := range evalPorts {
			out += fmt.Sprintf("%d=%s ", q, o.Listener[q])
		}
		res.Outcome(out)
		if nontrivial(c, e) {
			res.NontrivialCase(fmt.Sprint(ord))
		}
		if n%4001 == 1 {
			res.Sample(map[string]any{"case": c.String(), "expected": expectString(e), "observed": o})
		}
		return true
	})
	res.Bounds["cases_in_tier"] = n
}

func mustObserveFresh(t *testing.T) func(caseT) *observation {
	return func(c caseT) *observation {
		o, err := observeFresh(c)
		if err != nil {
			t.Fatalf("case %s: %v", c, err)
		}
		return o
	}
}
