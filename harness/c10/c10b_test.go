// C10 part b: enforcement. For every case an istio environment is built from the config objects
// (core.NewConfigGenTest), the workload's sidecar gets its real virtualInbound listener, and the
// listener is judged by the Envoy interpreter of envoy_test.go per destination port. The server-side
// resolver (through the real proxy) and the client side (real endpoints, the client proxy's own
// scoped policy view) are compared again on this path.
package c10

import (
	"encoding/json"
	"fmt"
	"testing"
	"time"

	listener "github.com/envoyproxy/go-control-plane/envoy/config/listener/v3"

	networking "istio.io/api/networking/v1alpha3"
	"istio.io/istio/pilot/pkg/model"
	"istio.io/istio/pilot/pkg/networking/core"
	"istio.io/istio/pilot/pkg/security/authn"
	"istio.io/istio/pilot/pkg/xds/endpoints"
	"istio.io/istio/pkg/config"
	"istio.io/istio/pkg/config/schema/gvk"
	"istio.io/istio/pkg/test"
	"istio.io/istio/zz_verif/engine"
)

const (
	serverIP = "10.1.1.1"
	clientIP = "10.2.2.2"
	svcHost  = "srv.ns1.example"
)

func serviceEntry() config.Config {
	return config.Config{
		Meta: config.Meta{
			GroupVersionKind: gvk.ServiceEntry, Name: "srv", Namespace: wlNS,
			CreationTimestamp: time.Unix(baseTS-1000, 0).UTC(),
		},
		Spec: &networking.ServiceEntry{
			Hosts:      []string{svcHost},
			Location:   networking.ServiceEntry_MESH_INTERNAL,
			Resolution: networking.ServiceEntry_STATIC,
			Ports: []*networking.ServicePort{
				{Number: svcHTTP, Name: "http", Protocol: "HTTP", TargetPort: portHTTP},
				{Number: portTCP, Name: "tcp", Protocol: "TCP"},
				{Number: 7000, Name: "auto", TargetPort: portAuto}, // no protocol: sniffed
			},
			Endpoints: []*networking.WorkloadEntry{{Address: serverIP, Labels: wlLabels}},
		},
	}
}

var svcPortOf = map[uint32]int{portHTTP: int(svcHTTP), portTCP: int(portTCP), portAuto: 7000}

// observeListener runs the full path for one case.
func observeListener(c caseT) (o *observation, err error) {
	o = &observation{Sidecar: map[uint32]string{}, ClientScoped: map[uint32]bool{}, Listener: map[uint32]string{}}
	err = test.Wrap(func(t test.Failer) {
		cfgs := []config.Config{serviceEntry()}
		for _, p := range c.Pols {
			cfgs = append(cfgs, p.asConfig())
		}
		cg := core.NewConfigGenTest(t, core.TestOptions{Configs: cfgs})
		server := cg.SetupProxy(&model.Proxy{
			ID: "srv-1." + wlNS, ConfigNamespace: wlNS, IPAddresses: []string{serverIP}, Labels: wlLabels,
			Metadata: &model.NodeMetadata{Namespace: wlNS, Labels: wlLabels},
		})
		client := cg.SetupProxy(&model.Proxy{
			ID: "cli-1." + clientNS, ConfigNamespace: clientNS, IPAddresses: []string{clientIP},
			Metadata: &model.NodeMetadata{Namespace: clientNS},
		})
		push := cg.PushContext()
		if len(server.ServiceTargets) != 3 {
			t.Fatalf("server proxy has %d service targets, want 3", len(server.ServiceTargets))
		}

		// (2) the inbound listener
		var vi *listener.Listener
		for _, l := range cg.Listeners(server) {
			if l.Name == model.VirtualInboundListenerName {
				vi = l
			}
		}
		if vi == nil {
			t.Fatal("no virtualInbound listener")
		}
		for _, q := range evalPorts {
			o.Listener[q] = classify(vi, q)
		}

		// (1) the server-side resolver through the proxy
		applier := authn.NewPolicyApplier(push, server, nil)
		for _, q := range evalPorts {
			o.Sidecar[q] = applier.GetMutualTLSModeForPort(q).String()
		}

		// (3) the client: real endpoints of the service, the client proxy's scoped policy view
		svc := push.ServiceForHostname(client, svcHost)
		if svc == nil {
			t.Fatal("client does not see the service")
		}
		view := client.SidecarScope.AuthnPolicies
		for _, q := range servicePorts {
			eps := push.ServiceEndpointsByPort(svc, svcPortOf[q], nil)
			if len(eps) != 1 || eps[0].EndpointPort != q {
				t.Fatalf("service port %d: endpoints %v", svcPortOf[q], eps)
			}
			o.ClientScoped[q] = endpoints.VerifCheckMtlsEnabled(push, view, svcPortOf[q], nil, "", eps[0], false)
		}
		p, _ := svc.Ports.GetByPort(int(portTCP))
		o.NsViewScoped = push.BestEffortInferServiceMTLSMode(view, nil, svc, p).String()
	})
	return o, err
}

// inQuickB defines the sub-product of the space that part b covers in the quick tier (the full
// space costs ~15 ms per case): canonical spelling; every first-policy combination without a
// second policy; and every second policy against three representative workload policies.
func inQuickB(sp *space, ci caseInfo) bool {
	if ci.form != formCanonical {
		return false
	}
	if ci.block == 'B' {
		// two port-level entries: only with mesh in {none, STRICT} and namespace in {none, DISABLE}
		return (ci.mesh == 0 || ci.mesh == 4) && (ci.ns == 0 || ci.ns == 2)
	}
	if ci.second == 0 {
		return true
	}
	if len(ci.wlPol) == 0 {
		return true
	}
	w := ci.wlPol[0]
	if w.Sel != selMatch || len(w.Ports) != 1 {
		return false
	}
	return (w.Mode == mUnset && w.Ports[0] == portSetting{portHTTP, mStrict}) || (w.Mode == mStrict && w.Ports[0] == portSetting{portNoSvc, mDisable})
}

func TestC10b(t *testing.T) {
	env := engine.GetEnv()
	res := engine.NewResult("C10", "b-listeners")
	res.Rule = "same case space as part a (quick: canonical spelling, all first-policy combinations, every second policy against {no workload policy, UNSET+8080:STRICT, STRICT+5555:DISABLE}, two-entry port maps under mesh{none,STRICT} x namespace{none,DISABLE}; thorough: everything); per case one istio environment, the workload's real virtualInbound listener judged per destination port by an Envoy filter-chain interpreter over 9 wire formats (plaintext tcp/http1/h2c, sidecar mTLS tcp/legacy/http1/h2, foreign TLS with/without ALPN), plus server resolver through the proxy and client decision through the client proxy's scoped view; non-trivial = as in part a"
	defer res.Write(t, env)

	if env.Replay != "" {
		var rp replayC10
		if err := engine.ReadReplay(env.Replay, &rp); err != nil {
			t.Fatal(err)
		}
		o, err := observeListener(rp.Case)
		if err != nil {
			t.Fatal(err)
		}
		e := report(res, rp.Case, rp.Canonical, o, mustObserveListener(t))
		res.Evaluations++
		ob, _ := json.MarshalIndent(o, "", " ")
		t.Logf("case %s\nexpected %s\nobserved %s", rp.Case, expectString(e), ob)
		return
	}

	sp := newSpace()
	res.Bounds["ordinals_total"] = sp.sizeA + sp.sizeB
	res.Bounds["ports_evaluated"] = evalPorts
	res.Bounds["wire_formats"] = len(wires)
	var n int64
	sp.each(func(ord int64, ci caseInfo, c caseT) bool {
		if !env.Thorough() && !inQuickB(sp, ci) {
			return true
		}
		n++
		if !env.Mine(n) {
			return true
		}
		if env.Expired() {
			res.Cap(fmt.Sprintf("deadline at ordinal %d/%d", ord, sp.sizeA+sp.sizeB))
			return false
		}
		res.Evaluations++
		o, err := observeListener(c)
		if err != nil {
			t.Fatalf("case %s: %v", c, err)
		}
		if res.Evaluations%499 == 0 {
			o2, _ := observeListener(c)
			a, _ := json.Marshal(o)
			b, _ := json.Marshal(o2)
			if string(a) != string(b) {
				res.Infra = "nondeterministic observation for " + c.String()
				return false
			}
		}
		e := report(res, c, sp.canonical(ci), o, mustObserveListener(t))
		out := ""
		for _, q := range evalPorts {
			out += fmt.Sprintf("%d=%s ", q, o.Listener[q])
		}
		res.Outcome(out)
		if nontrivial(c, e) {
			res.NontrivialCase(fmt.Sprint(ord))
		}
		if ord%50021 == 0 {
			res.Sample(map[string]any{"case": c.String(), "expected": expectString(e), "observed": o})
		}
		return true
	})
	res.Bounds["cases_in_tier"] = n
}

func mustObserveListener(t *testing.T) func(caseT) *observation {
	return func(c caseT) *observation {
		o, err := observeListener(c)
		if err != nil {
			t.Fatalf("case %s: %v", c, err)
		}
		return o
	}
}
