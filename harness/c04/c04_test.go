// C04 stage 1: explicit-state search of the per-stream subscription machine. Every request of a
// small alphabet (conformant or not) is applied through the real xds.ShouldRespond /
// shouldRespondDelta, every server response / push through the real xds.Send / sendDelta
// bookkeeping, from every reachable state; the decision is compared with the xDS protocol table
// and, on conformant paths, the recorded subscription with the reference client's.
package c04

import (
	"context"
	"fmt"
	"sort"
	"strings"
	"testing"

	discovery "github.com/envoyproxy/go-control-plane/envoy/service/discovery/v3"
	"google.golang.org/genproto/googleapis/rpc/status"
	"google.golang.org/grpc"

	"istio.io/istio/pilot/pkg/model"
	"istio.io/istio/pilot/pkg/xds"
	v3 "istio.io/istio/pilot/pkg/xds/v3"
	pkgxds "istio.io/istio/pkg/xds"
	"istio.io/istio/zz_verif/engine"
)

type sotwStream struct {
	grpc.ServerStream
	sent []*discovery.DiscoveryResponse
}

func (s *sotwStream) Context() context.Context { return context.Background() }
func (s *sotwStream) Send(r *discovery.DiscoveryResponse) error {
	s.sent = append(s.sent, r)
	return nil
}
func (s *sotwStream) Recv() (*discovery.DiscoveryRequest, error) { select {} }

type deltaStream struct {
	grpc.ServerStream
	sent []*discovery.DeltaDiscoveryResponse
}

func (s *deltaStream) Context() context.Context { return context.Background() }
func (s *deltaStream) Send(r *discovery.DeltaDiscoveryResponse) error {
	s.sent = append(s.sent, r)
	return nil
}
func (s *deltaStream) Recv() (*discovery.DeltaDiscoveryRequest, error) { select {} }

// types explored: one wildcard (CDS), one non-wildcard that CDS warms (EDS); delta adds a
// generator-managed type (Address).
var typeURLs = []string{v3.ClusterType, v3.EndpointType, v3.AddressType}
var typeShort = []string{"CDS", "EDS", "WADS"}

func isWildcardType(t int) bool { return t != 1 }

// ----- events

type event struct {
	Kind   string   `json:"kind"` // req, push, see
	Type   int      `json:"type"`
	Nonce  string   `json:"nonce,omitempty"` // empty, seen, unseen, bogus
	Names  []string `json:"names,omitempty"` // sotw: full list; delta: subscribe
	Unsub  []string `json:"unsub,omitempty"`
	Init   []string `json:"init,omitempty"`
	Err    bool     `json:"err,omitempty"`
	NoSend bool     `json:"nosend,omitempty"` // a response that is due produces no message (generator had nothing)
}

func (e event) String() string {
	switch e.Kind {
	case "req":
		s := fmt.Sprintf("%s.req(nonce=%s names=%v", typeShort[e.Type], e.Nonce, e.Names)
		if len(e.Unsub) > 0 {
			s += fmt.Sprintf(" unsub=%v", e.Unsub)
		}
		if len(e.Init) > 0 {
			s += fmt.Sprintf(" init=%v", e.Init)
		}
		if e.Err {
			s += " NACK"
		}
		if e.NoSend {
			s += " [no-send]"
		}
		return s + ")"
	}
	return typeShort[e.Type] + "." + e.Kind
}

// ----- world: real server-side objects + reference client

type clientType struct {
	want      map[string]bool
	wildcard  bool
	seen      int  // responses of this type the client has seen
	sentAny   bool // has sent a request for this type on this stream
	lastState string
	// lastOK: the client's last message for this type was sent having seen every response, was not a
	// rejection, and nothing was sent to it since
	lastOK bool
	// pending: names the client asked for that no response has covered since (a response covers the
	// names on the server's record when it is sent)
	pending map[string]bool
	// ever: names the client has wanted at some point on this stream. Only first-time names are tracked
	// as pending: re-adding a name dropped while a response was in flight is a case the state-of-the-world
	// protocol itself cannot resolve (the server ignores the stale request by rule), so nothing is demanded.
	ever map[string]bool
}

type world struct {
	delta      bool
	proxy      *model.Proxy
	con        *xds.Connection
	ss         *sotwStream
	ds         *deltaStream
	sentNonces [3][]string
	cl         [3]clientType
	conformant bool
	ntypes     int
	active     []int // the types this exploration drives
	// suppressed[t]: some response that was due for type t produced no message (NoSend event)
	suppressed [3]bool
}

func newWorld(delta bool, active ...int) *world {
	w := &world{delta: delta, conformant: true, ntypes: 2, active: active}
	w.proxy = &model.Proxy{ID: "sidecar~1.1.1.1~a.ns~ns.svc.cluster.local", WatchedResources: map[string]*model.WatchedResource{}}
	if delta {
		w.ntypes = 3
		w.ds = &deltaStream{}
		w.con = xds.VerifNewDeltaConnection("peer", w.ds, "c")
	} else {
		w.ss = &sotwStream{}
		w.con = xds.VerifNewConnection("peer", w.ss, "c")
	}
	xds.VerifSetProxy(w.con, w.proxy)
	for i := range w.cl {
		w.cl[i].want = map[string]bool{}
		w.cl[i].pending = map[string]bool{}
		w.cl[i].ever = map[string]bool{}
	}
	if len(w.active) == 0 {
		for t := 0; t < w.ntypes; t++ {
			w.active = append(w.active, t)
		}
	}
	return w
}

func sorted(m map[string]bool) []string {
	var s []string
	for k, v := range m {
		if v {
			s = append(s, k)
		}
	}
	sort.Strings(s)
	return s
}

func (w *world) wr(t int) *model.WatchedResource { return w.proxy.WatchedResources[typeURLs[t]] }

func (w *world) latestSent(t int) string {
	if n := len(w.sentNonces[t]); n > 0 {
		return w.sentNonces[t][n-1]
	}
	return ""
}

func (w *world) send(t int) {
	nonce := fmt.Sprintf("%s-n%d", typeShort[t], len(w.sentNonces[t])+1)
	var err error
	if w.delta {
		err = xds.VerifSendDelta(w.con, &discovery.DeltaDiscoveryResponse{TypeUrl: typeURLs[t], Nonce: nonce})
	} else {
		err = pkgxds.Send(w.con, &discovery.DiscoveryResponse{TypeUrl: typeURLs[t], Nonce: nonce})
	}
	if err != nil {
		panic(err)
	}
	w.sentNonces[t] = append(w.sentNonces[t], nonce)
	w.cl[t].lastOK = false
	if r := w.wr(t); r != nil {
		for n := range r.ResourceNames {
			delete(w.cl[t].pending, n)
		}
	}
}

func (w *world) nonceFor(t int, sym string) string {
	switch sym {
	case "seen":
		if w.cl[t].seen > 0 {
			return w.sentNonces[t][w.cl[t].seen-1]
		}
		return ""
	case "unseen":
		return w.latestSent(t)
	case "bogus":
		return "never-issued"
	}
	return ""
}

type verdict struct {
	key, desc string
}

// apply runs one event on the real code and checks it against the protocol table.
func (w *world) apply(e event) (v *verdict) {
	t := e.Type
	switch e.Kind {
	case "see":
		w.cl[t].seen++
		return nil
	case "push":
		w.send(t)
		return nil
	}
	// ---- a client request
	c := &w.cl[t]
	nonce := w.nonceFor(t, e.Nonce)
	pre := w.wr(t)
	var preNames map[string]bool
	preSent, preAlways, hasWR, preWildcard := "", false, pre != nil, false
	if pre != nil {
		preNames = map[string]bool{}
		for n := range pre.ResourceNames {
			preNames[n] = true
		}
		preSent, preAlways, preWildcard = pre.NonceSent, pre.AlwaysRespond, pre.Wildcard
	}
	// conformance of this message (reference client R1): carries the nonce of the latest response it
	// has seen for the type (none seen: empty); rejects only a response it has seen; sotw non-wildcard
	// first request names something.
	conf := true
	if c.seen > 0 {
		conf = e.Nonce == "seen"
	} else {
		conf = e.Nonce == "empty"
	}
	if e.Err && c.seen == 0 {
		conf = false
	}
	if w.delta {
		// delta: a spontaneous (empty nonce) subscription change is conformant at any time once the first
		// request was made; an ACK/NACK carries the latest seen nonce and no subscription change.
		if c.sentAny && e.Nonce == "empty" && !e.Err && (len(e.Names) > 0 || len(e.Unsub) > 0) {
			conf = true
		}
		if e.Nonce == "seen" && (len(e.Names) > 0 || len(e.Unsub) > 0 || len(e.Init) > 0) {
			conf = false // Envoy never changes subscriptions on an ACK
		}
		if c.sentAny && len(e.Init) > 0 {
			conf = false // initial_resource_versions only on the first request of a stream
		}
		if c.sentAny && e.Nonce == "empty" && len(e.Names) == 0 && len(e.Unsub) == 0 {
			conf = false // an empty spontaneous request means nothing
		}
		for _, u := range e.Unsub {
			if u != "*" && !c.want[u] {
				conf = false // unsubscribing something never subscribed
			}
			if u == "*" && !c.wildcard && !(len(e.Names) > 0 && !c.sentAny) {
				conf = false
			}
		}
	}
	if !conf {
		w.conformant = false
	}
	var respond bool
	var crashed any
	func() {
		defer func() { crashed = recover() }()
		if w.delta {
			req := &discovery.DeltaDiscoveryRequest{TypeUrl: typeURLs[t], ResponseNonce: nonce, ResourceNamesSubscribe: e.Names, ResourceNamesUnsubscribe: e.Unsub}
			if len(e.Init) > 0 {
				req.InitialResourceVersions = map[string]string{}
				for _, n := range e.Init {
					req.InitialResourceVersions[n] = "v1"
				}
			}
			if e.Err {
				req.ErrorDetail = &status.Status{Code: 3, Message: "rejected"}
			}
			respond = xds.VerifShouldRespondDelta(w.con, req)
		} else {
			req := &discovery.DiscoveryRequest{TypeUrl: typeURLs[t], ResponseNonce: nonce, ResourceNames: e.Names, VersionInfo: "v"}
			if e.Err {
				req.ErrorDetail = &status.Status{Code: 3, Message: "rejected"}
			}
			respond, _ = pkgxds.ShouldRespond(w.proxy, "c", req)
		}
	}()
	state := fmt.Sprintf("wr=%v nonceSent=%v always=%v", hasWR, preSent != "", preAlways)
	if crashed != nil {
		shape := "NACK"
		if !e.Err {
			shape = "request"
		}
		return &verdict{fmt.Sprintf("crash:%s:%s:wr=%v", map[bool]string{false: "sotw", true: "delta"}[w.delta], shape, hasWR),
			fmt.Sprintf("%v in state {%s} panics: %v", e, state, crashed)}
	}
	// ---- protocol table (what the property demands; "either" where it is silent)
	must := "" // "respond" | "silent" | ""
	why := ""
	if w.delta {
		added := false
		// initial_resource_versions only has a meaning on the first request of a stream (handled by the
		// "!hasWR" row); later it adds nothing the protocol obliges the server to answer
		for _, n := range e.Names {
			if n != "*" && !preNames[n] {
				added = true
			}
		}
		changes := len(e.Names) > 0 || len(e.Unsub) > 0 || len(e.Init) > 0
		switch {
		case e.Err:
			must, why = "silent", "NACK"
		case !hasWR:
			must, why = "respond", "first request / reconnect for the type"
		case nonce != "" && preSent != "" && nonce != preSent:
			must, why = "silent", "stale nonce"
		case nonce == "" && added && !(t == 2 && preWildcard):
			must, why = "respond", "spontaneous request adding names"
		case nonce == "" && added && t == 2 && preWildcard:
			must, why = "respond", "spontaneous request adding names (on-demand over wildcard)"
		case nonce != "" && nonce == preSent && !changes && !preAlways:
			must, why = "silent", "ACK"
		}
	} else {
		unsubShape := !isWildcardType(t) && len(e.Names) == 0
		added, same := false, len(e.Names) == len(preNames)
		for _, n := range e.Names {
			if !preNames[n] {
				added, same = true, false
			}
		}
		switch {
		case e.Err:
			must, why = "silent", "NACK"
		case unsubShape:
			// nothing is subscribed any more: there is nothing to answer with; either is acceptable
		case !hasWR:
			must, why = "respond", "first request / reconnect for the type"
		case nonce == "":
			must, why = "respond", "request without nonce (new subscription on this stream)"
		case preSent != "" && nonce != preSent:
			must, why = "silent", "stale nonce"
		case nonce == preSent && added:
			must, why = "respond", "request adding names"
		case nonce == preSent && same && !preAlways:
			must, why = "silent", "ACK"
		}
	}
	if must == "respond" && !respond {
		return &verdict{fmt.Sprintf("silent-on:%s:%s:%s", map[bool]string{false: "sotw", true: "delta"}[w.delta], typeShort[t], why), fmt.Sprintf("%v in state {%s}: server stays silent, protocol requires a response (%s)", e, state, why)}
	}
	if must == "silent" && respond {
		return &verdict{fmt.Sprintf("responds-to:%s:%s:%s", map[bool]string{false: "sotw", true: "delta"}[w.delta], typeShort[t], why), fmt.Sprintf("%v in state {%s}: server responds, protocol requires silence (%s)", e, state, why)}
	}
	if preAlways && respond {
		if cur := w.wr(t); cur != nil && cur.AlwaysRespond {
			return &verdict{"always-respond-not-consumed", fmt.Sprintf("%v: forced response given but the marker stays set", e)}
		}
	}
	// ---- client model update
	preWant := map[string]bool{}
	for n := range c.want {
		preWant[n] = true
	}
	c.sentAny = true
	if w.delta {
		if !e.Err {
			if len(e.Names) == 0 && !hasWR && len(e.Init) == 0 {
				c.wildcard = true
			}
			for _, n := range append(append([]string{}, e.Names...), e.Init...) {
				if n == "*" {
					c.wildcard = true
				} else {
					c.want[n] = true
				}
			}
			for _, n := range e.Unsub {
				if n == "*" {
					c.wildcard = false
				} else {
					delete(c.want, n)
				}
			}
		}
	} else if !e.Err {
		c.want = map[string]bool{}
		for _, n := range e.Names {
			c.want[n] = true
		}
	}
	// names newly wanted wait for a response that covers them; names no longer wanted wait for nothing
	if !e.Err {
		for n := range c.want {
			if !preWant[n] && !c.ever[n] {
				c.pending[n] = true
			}
			c.ever[n] = true
		}
		for n := range c.pending {
			if !c.want[n] {
				delete(c.pending, n)
			}
		}
	}
	caughtUp := c.seen == len(w.sentNonces[t])
	c.lastOK = conf && !e.Err && caughtUp && (must != "silent" || why == "ACK")
	if respond && !e.NoSend {
		w.send(t) // sets lastOK=false: a response is now unseen
	}
	if respond && e.NoSend {
		// the generator had nothing for this request: nothing is owed for the names it asked for
		w.suppressed[t] = true
		for _, n := range e.Names {
			delete(c.pending, n)
		}
	}
	// ---- every name a conformant client asked for has been covered by a response
	if w.conformant && c.lastOK && !isWildcardType(t) && c.seen == len(w.sentNonces[t]) {
		if p := sorted(c.pending); len(p) > 0 {
			key := fmt.Sprintf("subscription-never-answered:%s:%s", map[bool]string{false: "sotw", true: "delta"}[w.delta], typeShort[t])
			if w.suppressed[t] {
				key += ":after-suppressed-response"
			}
			return &verdict{key,
				fmt.Sprintf("after %v the conformant client has seen every response and is still waiting for %v: no response sent since it asked covered them", e, p)}
		}
	}
	// ---- subscription record on conformant paths
	if w.conformant && c.lastOK {
		cur := w.wr(t)
		have := map[string]bool{}
		if cur != nil {
			for n := range cur.ResourceNames {
				have[n] = true
			}
		}
		skipNames := w.delta && t == 2 && cur != nil && cur.Wildcard // generator-managed wildcard stores no names by design
		if !skipNames && fmt.Sprint(sorted(have)) != fmt.Sprint(sorted(c.want)) {
			key := fmt.Sprintf("subscription-record:%s:%s", map[bool]string{false: "sotw", true: "delta"}[w.delta], typeShort[t])
			if w.suppressed[t] {
				key += ":after-suppressed-response"
			}
			return &verdict{key, fmt.Sprintf("after %v the server records %v but the conformant client asked for %v", e, sorted(have), sorted(c.want))}
		}
	}
	return nil
}

// canon: everything that determines the futures, with nonces made relative.
func (w *world) canon() string {
	var b strings.Builder
	fmt.Fprintf(&b, "conf=%v|supp=%v|", w.conformant, w.suppressed)
	for t := 0; t < w.ntypes; t++ {
		c := w.cl[t]
		r := w.wr(t)
		fmt.Fprintf(&b, "%s:", typeShort[t])
		if r == nil {
			b.WriteString("nowr")
		} else {
			var names []string
			for n := range r.ResourceNames {
				names = append(names, n)
			}
			sort.Strings(names)
			rel := func(n string) string {
				switch {
				case n == "":
					return "none"
				case n == w.latestSent(t):
					return "latest"
				default:
					return "old"
				}
			}
			fmt.Fprintf(&b, "wr{%v wc=%v sent=%s acked=%s always=%v err=%v}", names, r.Wildcard, rel(r.NonceSent), rel(r.NonceAcked), r.AlwaysRespond, r.LastError != "")
		}
		unseen := len(w.sentNonces[t]) - c.seen
		fmt.Fprintf(&b, " cl{want=%v wc=%v seenAny=%v unseen=%d sentAny=%v ok=%v pend=%v ever=%v};", sorted(c.want), c.wildcard, c.seen > 0, unseen, c.sentAny, c.lastOK, sorted(c.pending), sorted(c.ever))
	}
	return b.String()
}

func subsets(names []string) [][]string {
	var out [][]string
	for m := 0; m < 1<<len(names); m++ {
		var s []string
		for i, n := range names {
			if m&(1<<i) != 0 {
				s = append(s, n)
			}
		}
		out = append(out, s)
	}
	return out
}

func (w *world) enabled(thorough bool) []event {
	var out []event
	for _, t := range w.active {
		c := w.cl[t]
		unseen := len(w.sentNonces[t]) - c.seen
		if unseen > 0 {
			out = append(out, event{Kind: "see", Type: t})
		}
		if w.wr(t) != nil && unseen < 2 {
			out = append(out, event{Kind: "push", Type: t})
		}
		nonces := []string{"empty", "bogus"}
		if c.seen > 0 {
			nonces = append(nonces, "seen")
		}
		if unseen > 0 {
			nonces = append(nonces, "unseen")
		}
		if unseen >= 2 {
			continue // bound on responses in flight
		}
		for _, n := range nonces {
			for _, errd := range []bool{false, true} {
				if w.delta {
					subs := [][]string{nil, {"a"}, {"a", "b"}, {"*"}, {"*", "a"}}
					unsubs := [][]string{nil, {"a"}, {"*"}}
					inits := [][]string{nil, {"a"}}
					if thorough {
						subs = append(subs, []string{"b"})
						unsubs = append(unsubs, []string{"a", "b"})
					}
					for _, s := range subs {
						for _, u := range unsubs {
							for _, in := range inits {
								if errd && (len(s) > 0 || len(u) > 0 || len(in) > 0) && !thorough {
									continue
								}
								out = append(out, event{Kind: "req", Type: t, Nonce: n, Names: s, Unsub: u, Init: in, Err: errd})
							}
						}
					}
				} else {
					for _, s := range subsets([]string{"a", "b"}) {
						out = append(out, event{Kind: "req", Type: t, Nonce: n, Names: s, Err: errd})
						if !errd {
							out = append(out, event{Kind: "req", Type: t, Nonce: n, Names: s, NoSend: true})
						}
					}
				}
			}
		}
	}
	return out
}

// activeTypes is set per exploration (a package variable so that replay files only carry events).
var activeTypes []int

func replay(delta bool, hist []event) (*world, *verdict) {
	w := newWorld(delta, activeTypes...)
	for _, e := range hist {
		if v := w.apply(e); v != nil {
			return w, v
		}
	}
	return w, nil
}

// ackLoop: from the state reached, the reference client sees and ACKs everything; the exchange
// must die out (no request/response loop).
func ackLoop(delta bool, hist []event) *verdict {
	w, _ := replay(delta, hist)
	for round := 0; round < 6; round++ {
		progress := false
		for t := 0; t < w.ntypes; t++ {
			c := &w.cl[t]
			for c.seen < len(w.sentNonces[t]) {
				c.seen++
				progress = true
			}
			if !c.sentAny || c.seen == 0 {
				continue
			}
			wr := w.wr(t)
			if wr == nil || wr.NonceAcked == w.latestSent(t) {
				continue
			}
			e := event{Kind: "req", Type: t, Nonce: "seen"}
			if !delta {
				e.Names = sorted(c.want)
			}
			n0 := len(w.sentNonces[t])
			if v := w.apply(e); v != nil {
				if strings.HasPrefix(v.key, "crash") {
					return v
				}
				continue
			}
			// only a response keeps the exchange going (an ACK the server files as stale, e.g. after a
			// suppressed response reset its nonce, is re-sent by this loop but answered by nothing)
			if len(w.sentNonces[t]) > n0 {
				progress = true
			}
		}
		if !progress {
			return nil
		}
	}
	return &verdict{"request-response-loop", fmt.Sprintf("after %v a client that only ACKs keeps receiving responses", hist)}
}

func runBFS(t *testing.T, env *engine.Env, res *engine.Result, delta bool, depth int, types ...int) {
	mode := map[bool]string{false: "sotw", true: "delta"}[delta]
	activeTypes = types
	var tn []string
	for _, x := range types {
		tn = append(tn, typeShort[x])
	}
	if len(types) > 0 {
		mode += "-" + strings.Join(tn, "+")
	} else {
		mode += "-joint"
	}
	// visited set: 128-bit digests of canonical states; frontier: histories as indexes into an event
	// table (millions of states at the thorough depths would not fit otherwise)
	seen := map[[16]byte]struct{}{}
	w0 := newWorld(delta, types...)
	seen[engine.Key128(w0.canon())] = struct{}{}
	var evTab []event
	evIdx := map[string]uint16{}
	intern := func(e event) uint16 {
		k := e.String()
		if i, ok := evIdx[k]; ok {
			return i
		}
		evTab = append(evTab, e)
		evIdx[k] = uint16(len(evTab) - 1)
		return uint16(len(evTab) - 1)
	}
	expand := func(h []uint16) []event {
		out := make([]event, len(h))
		for i, x := range h {
			out[i] = evTab[x]
		}
		return out
	}
	frontier := [][]uint16{nil}
	res.States++
	closed := false
	for d := 0; d < depth; d++ {
		var next [][]uint16
		for _, chist := range frontier {
			if env.Expired() {
				res.Cap("deadline (" + mode + ")")
				return
			}
			hist := expand(chist)
			w, _ := replay(delta, hist)
			for _, e := range w.enabled(env.Thorough()) {
				h2 := append(append([]event(nil), hist...), e)
				w2, v := replay(delta, h2)
				res.Transitions++
				res.Evaluations++
				res.Traces++
				if v != nil {
					res.Violate(v.key, v.desc+" after "+fmt.Sprint(hist), map[string]any{"delta": delta, "events": h2, "types": types})
					res.Outcome("violation:" + v.key)
					continue
				}
				c := w2.canon()
				ck := engine.Key128(c)
				if _, ok := seen[ck]; ok {
					continue
				}
				seen[ck] = struct{}{}
				res.States++
				if w2.conformant {
					res.NontrivialCase(mode + c)
				}
				res.Outcome(fmt.Sprintf("%s conformant=%v", mode, w2.conformant))
				if v := ackLoop(delta, h2); v != nil {
					res.Violate(v.key, v.desc, map[string]any{"delta": delta, "events": h2, "types": types})
				}
				next = append(next, append(append([]uint16(nil), chist...), intern(e)))
				if res.States%400 == 3 {
					res.Sample(map[string]any{"mode": mode, "history": fmt.Sprint(h2), "state": c})
				}
			}
		}
		frontier = next
		if len(frontier) == 0 {
			closed = true
			break
		}
	}
	res.Bounds[mode+".depth"] = depth
	res.Bounds[mode+".state_space_closed"] = closed
	if !closed {
		res.Bounds[mode+".note"] = "depth bound reached before the abstract state space closed; every state up to the depth was expanded"
	}
}

func TestC04Stage1(t *testing.T) {
	env := engine.GetEnv()
	res := engine.NewResult("C04", "stage1-subscription-machine")
	res.Rule = "BFS over histories of {client request (nonce in empty/latest-seen/unseen/never-issued x names x error_detail), client sees a response, server push} for CDS+EDS (sotw) and CDS+EDS+Address (delta), applied to the real ShouldRespond/shouldRespondDelta/Send/sendDelta; dedup on a canonical state with relative nonces; non-trivial = distinct state reached on a protocol-conformant path"
	defer res.Write(t, env)
	if env.Replay != "" {
		var rp struct {
			Delta  bool    `json:"delta"`
			Events []event `json:"events"`
			Types  []int   `json:"types"`
		}
		if err := engine.ReadReplay(env.Replay, &rp); err != nil {
			t.Fatal(err)
		}
		activeTypes = rp.Types
		_, v := replay(rp.Delta, rp.Events)
		if v == nil {
			v = ackLoop(rp.Delta, rp.Events)
		}
		if v != nil {
			res.Violate(v.key, v.desc, rp)
		}
		return
	}
	// one exploration per shard: the two types jointly (they interact through the warming marker) to a
	// small depth, and each type alone much deeper (to closure of the abstract state space in thorough)
	type plan struct {
		delta bool
		depth int
		types []int
	}
	plans := []plan{
		{false, 4, nil}, {false, 8, []int{1}}, {false, 8, []int{0}},
		{true, 3, nil}, {true, 5, []int{1}}, {true, 5, []int{0}}, {true, 5, []int{2}},
	}
	if env.Thorough() {
		plans = []plan{
			{false, 7, nil}, {false, 14, []int{1}}, {false, 14, []int{0}},
			{true, 5, nil}, {true, 8, []int{1}}, {true, 8, []int{0}}, {true, 8, []int{2}},
		}
	}
	for i, p := range plans {
		if env.Of > 1 && i%env.Of != env.Shard {
			continue
		}
		runBFS(t, env, res, p.delta, p.depth, p.types...)
	}
}
