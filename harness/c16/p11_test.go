package c16

import (
	"strings"

	"istio.io/istio/pilot/pkg/config/memory"
	"istio.io/istio/pilot/pkg/model"
	"istio.io/istio/pkg/config"
	"istio.io/istio/pkg/config/schema/collections"
	"istio.io/istio/pkg/kube/controllers"
	"istio.io/istio/pkg/kube/krt"
	testconfig "istio.io/istio/pkg/test/config"
)

// P11: the memory config store (a krt static collection + namespace index behind the ConfigStore API)
// as a create / update / delete machine. Reference: a map; Create fails on a present key, Update and
// Delete fail on an absent one (and change nothing).

var mockGVK = collections.Mock.GroupVersionKind()

func toConfig(o Obj) config.Config {
	return config.Config{
		Meta: config.Meta{GroupVersionKind: mockGVK, Name: o.Name, Namespace: o.Namespace, Labels: o.Labels},
		Spec: &testconfig.MockConfig{Key: o.Val},
	}
}

func fromConfig(c config.Config) Obj {
	o := Obj{Named: named(c.Namespace, c.Name)}
	if len(c.Labels) > 0 {
		o.Labels = map[string]string{}
		for k, v := range c.Labels {
			o.Labels[k] = v
		}
	}
	if s, ok := c.Spec.(*testconfig.MockConfig); ok && s != nil {
		o.Val = s.Key
	}
	return o
}

func progP11() *program {
	mk := func(ns, name, val string, kv ...string) Obj {
		return Obj{Named: named(ns, name), Val: val, Labels: L(kv...)}
	}
	return &program{
		Name:    "P11-memory-config-store",
		About:   "pilot/pkg/config/memory Controller: Create/Update/Delete incl. the failing ones; Get, List(all), List(namespace) (namespace index); events through RegisterEventHandler and through the krt collection",
		Initial: state{content{"n/a": mk("n", "a", "v1")}},
		Ops: []op{
			{Label: "create n/a v1", Kind: opCreate, Obj: mk("n", "a", "v1")},
			{Label: "create n/a v2", Kind: opCreate, Obj: mk("n", "a", "v2")},
			{Label: "update n/a v1", Kind: opUpdate, Obj: mk("n", "a", "v1")},
			{Label: "update n/a v2", Kind: opUpdate, Obj: mk("n", "a", "v2")},
			{Label: "update n/a v1 labelled", Kind: opUpdate, Obj: mk("n", "a", "v1", "app", "a")},
			{Label: "delete n/a", Kind: opRemove, Key: "n/a"},
			{Label: "create m/b v1", Kind: opCreate, Obj: mk("m", "b", "v1")},
			{Label: "update m/b v2", Kind: opUpdate, Obj: mk("m", "b", "v2")},
			{Label: "delete m/b", Kind: opRemove, Key: "m/b"},
		},
		New: func(stop chan struct{}, init state) *instance {
			c := memory.NewController(collections.Mocks, false)
			for _, k := range init[0].sortedKeys() {
				if _, err := c.Create(toConfig(init[0][k])); err != nil {
					panic("P11 initial create: " + err.Error())
				}
			}
			go c.Run(stop)
			wrap := func(h func([]krt.Event[Obj])) func([]krt.Event[config.Config]) {
				return func(evs []krt.Event[config.Config]) {
					out := make([]krt.Event[Obj], 0, len(evs))
					for _, e := range evs {
						ne := krt.Event[Obj]{Event: e.Event}
						if e.Old != nil {
							o := fromConfig(*e.Old)
							ne.Old = &o
						}
						if e.New != nil {
							o := fromConfig(*e.New)
							ne.New = &o
						}
						out = append(out, ne)
					}
					h(out)
				}
			}
			inst := &instance{}
			get := func(k string) *Obj {
				p := strings.SplitN(k, "/", 2)
				g := c.Get(mockGVK, p[1], p[0])
				if g == nil {
					return nil
				}
				o := fromConfig(*g)
				return &o
			}
			list := func() []Obj {
				var out []Obj
				for _, x := range c.List(mockGVK, model.NamespaceAll) {
					out = append(out, fromConfig(x))
				}
				return out
			}
			inst.Views = []view{
				{
					Name: "store", List: list, Get: get, EqualUpdateOK: true,
					Reg: func(h func([]krt.Event[Obj])) krt.HandlerRegistration {
						return c.KrtCollection(mockGVK).RegisterBatch(wrap(h), true)
					},
				},
				{
					Name: "store.RegisterEventHandler", List: list, Get: get, EqualUpdateOK: true, NoInitial: true,
					Reg: func(h func([]krt.Event[Obj])) krt.HandlerRegistration {
						c.RegisterEventHandler(mockGVK, func(old, cur config.Config, ev model.Event) {
							e := krt.Event[Obj]{Event: controllers.EventType(ev)}
							n := fromConfig(cur)
							switch ev {
							case model.EventAdd:
								e.New = &n
							case model.EventUpdate:
								o := fromConfig(old)
								e.Old, e.New = &o, &n
							case model.EventDelete:
								e.Old = &n
							}
							h([]krt.Event[Obj]{e})
						})
						return nil
					},
				},
			}
			inst.Lookups = []lookup{{Name: "List(namespace)", Keys: []string{"n", "m", "zz"}, Fn: func(ns string) []Obj {
				var out []Obj
				for _, x := range c.List(mockGVK, ns) {
					out = append(out, fromConfig(x))
				}
				return out
			}}}
			inst.Apply = func(o op) (err error) {
				// the outcome (error or not) is part of the machine
				switch o.Kind {
				case opCreate:
					_, err = c.Create(toConfig(o.Obj))
				case opUpdate:
					_, err = c.Update(toConfig(o.Obj))
				case opRemove:
					p := strings.SplitN(o.Key, "/", 2)
					err = c.Delete(mockGVK, p[1], p[0], nil)
				}
				return err
			}
			return inst
		},
		Model: func(st state) map[string]content {
			return map[string]content{"store": st[0], "store.RegisterEventHandler": st[0]}
		},
		LookupModel: func(st state) map[string]map[string][]string {
			m := map[string][]string{}
			for _, ns := range []string{"n", "m", "zz"} {
				m[ns] = sortedCanon(filterObjs(st[0], func(o Obj) bool { return o.Namespace == ns }))
			}
			return map[string]map[string][]string{"List(namespace)": m}
		},
	}
}
