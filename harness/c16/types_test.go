// C16: krt derived collections equal their function of the inputs; every subscriber's event stream is
// consistent. This file: the one object type all programs use, canonical forms, and the description of
// a program (real krt graph + the harness's own pure recomputation).
package c16

import (
	"fmt"
	"sort"
	"strings"

	"istio.io/istio/pkg/kube/krt"
)

// Obj is the element type of every input and derived collection of the harness programs.
// Key = "<namespace>/<name>" (krt.Named). Equality inside krt is reflect.DeepEqual, so empty label
// maps / ref lists are always nil, never empty.
type Obj struct {
	krt.Named
	Labels   map[string]string
	Selector map[string]string
	Val      string
	Refs     []string
}

func (o Obj) GetLabels() map[string]string        { return o.Labels }
func (o Obj) GetLabelSelector() map[string]string { return o.Selector }

func canonMap(m map[string]string) string {
	ks := make([]string, 0, len(m))
	for k := range m {
		ks = append(ks, k)
	}
	sort.Strings(ks)
	var b strings.Builder
	for _, k := range ks {
		b.WriteString(k + "=" + m[k] + ",")
	}
	return b.String()
}

// C is the canonical text of an object (what the oracle compares).
func (o Obj) C() string {
	return fmt.Sprintf("%s/%s{l:%s s:%s v:%s r:%s}", o.Namespace, o.Name, canonMap(o.Labels), canonMap(o.Selector), o.Val, strings.Join(o.Refs, ","))
}

func key(o Obj) string { return o.Namespace + "/" + o.Name }

// L builds a label map from pairs; no pairs = nil.
func L(kv ...string) map[string]string {
	if len(kv) == 0 {
		return nil
	}
	m := map[string]string{}
	for i := 0; i+1 < len(kv); i += 2 {
		m[kv[i]] = kv[i+1]
	}
	return m
}

func named(ns, name string) krt.Named { return krt.Named{Name: name, Namespace: ns} }

// N is an object in namespace "n".
func N(name, val string) Obj { return Obj{Named: named("n", name), Val: val} }

func (o Obj) withLabels(kv ...string) Obj { o.Labels = L(kv...); return o }
func (o Obj) withSel(kv ...string) Obj    { o.Selector = L(kv...); return o }
func (o Obj) withRefs(r ...string) Obj {
	if len(r) == 0 {
		o.Refs = nil
	} else {
		o.Refs = r
	}
	return o
}
func (o Obj) inNs(ns string) Obj { o.Namespace = ns; return o }

// content is a collection's contents by key.
type content map[string]Obj

func (c content) canon() string {
	ks := make([]string, 0, len(c))
	for k := range c {
		ks = append(ks, k)
	}
	sort.Strings(ks)
	var b strings.Builder
	for _, k := range ks {
		b.WriteString(k + "=>" + c[k].C() + "; ")
	}
	return b.String()
}

func (c content) clone() content {
	n := content{}
	for k, v := range c {
		n[k] = v
	}
	return n
}

func (c content) sortedKeys() []string {
	ks := make([]string, 0, len(c))
	for k := range c {
		ks = append(ks, k)
	}
	sort.Strings(ks)
	return ks
}

// state is the current contents of a program's input collections (the model side of the inputs).
type state []content

func (s state) clone() state {
	n := make(state, len(s))
	for i, c := range s {
		n[i] = c.clone()
	}
	return n
}

func (s state) canon() string {
	var b strings.Builder
	for i, c := range s {
		fmt.Fprintf(&b, "[%d] %s| ", i, c.canon())
	}
	return b.String()
}

type opKind int

const (
	opPut    opKind = iota // add or update (krt static UpdateObject); an equal value is the no-op update
	opDel                  // delete (vacuous when the key is absent: such histories are skipped)
	opCreate               // P11: create, fails when present
	opUpdate               // P11: update, fails when absent
	opRemove               // P11: delete, fails when absent
)

// op is one letter of a program's alphabet.
type op struct {
	Label string
	Coll  int
	Kind  opKind
	Obj   Obj    // put / create / update
	Key   string // del / remove
}

func put(coll int, label string, o Obj) op { return op{Label: label, Coll: coll, Kind: opPut, Obj: o} }
func del(coll int, label string, k string) op {
	return op{Label: label, Coll: coll, Kind: opDel, Key: k}
}

// applyModel applies an op to the model state; changed=false means the op leaves the inputs as they are
// AND is expected to produce no event at all (vacuous).
func (o op) applyModel(st state) (vacuous bool) {
	c := st[o.Coll]
	switch o.Kind {
	case opPut:
		c[key(o.Obj)] = o.Obj
	case opDel:
		if _, ok := c[o.Key]; !ok {
			return true
		}
		delete(c, o.Key)
	case opCreate:
		if _, ok := c[key(o.Obj)]; !ok {
			c[key(o.Obj)] = o.Obj
		}
	case opUpdate:
		if _, ok := c[key(o.Obj)]; ok {
			c[key(o.Obj)] = o.Obj
		}
	case opRemove:
		delete(c, o.Key)
	}
	return false
}

// view is one observed collection of a program instance.
type view struct {
	Name string
	List func() []Obj
	Get  func(k string) *Obj
	// Reg registers a batch handler with runExistingState=true; nil = the view has no event stream to check.
	Reg func(h func([]krt.Event[Obj])) krt.HandlerRegistration
	// EqualUpdateOK: an Update whose old and new are equal is not a violation on this view (P11: the
	// store forwards every explicit Update call; the clause is about derived collections).
	EqualUpdateOK bool
	// NoInitial: the registration does not replay the existing state (memory Controller.RegisterEventHandler):
	// the automaton starts from the contents at registration.
	NoInitial bool
}

// lookup is an index (or other keyed query) checked next to the views.
type lookup struct {
	Name string
	Keys []string
	Fn   func(k string) []Obj
}

// instance is a program built on real krt inside a bubble.
type instance struct {
	Inputs  []krt.StaticCollection[Obj]
	Views   []view
	Lookups []lookup
	// Apply overrides the default application of an op to Inputs (P9 attaches collections, P11 calls the store).
	Apply func(o op) error
	// Panicked returns the panics recovered inside krt handlers since the last call (see hooks/pkg/kube/krt/c16.go).
	Panicked func() []string
	// Conditional makes puts use ConditionalUpdateObject (see P8: a join forwards its parts' events as they are).
	Conditional bool
}

// program = alphabet + real graph + pure model.
type program struct {
	Name string
	// Key groups programs that exercise one mechanism under one violation-key prefix (default: Name).
	Key string
	// Upstream: view -> the observed view it is computed from (findings on a view downstream of a wrong view are dropped).
	Upstream map[string]string
	About    string
	Initial  state
	Ops      []op
	New      func(stop chan struct{}, init state) *instance
	// Model recomputes every view's contents from the current inputs (plain Go over maps).
	Model func(st state) map[string]content
	// LookupModel recomputes lookup results: name -> key -> canonical objects (sorted).
	LookupModel func(st state) map[string]map[string][]string
	// Legal reports whether the inputs satisfy the program's documented krt contract (P2: an output key
	// has one parent; unchecked join: disjoint parts). Histories that pass through an illegal state are skipped.
	Legal func(st state) bool
}

func viewOf(name string, c krt.Collection[Obj]) view {
	return view{
		Name: name,
		List: c.List,
		Get:  c.GetKey,
		Reg: func(h func([]krt.Event[Obj])) krt.HandlerRegistration {
			return c.RegisterBatch(h, true)
		},
	}
}

func staticOf(stop chan struct{}, name string, init content) krt.StaticCollection[Obj] {
	var vals []Obj
	for _, k := range init.sortedKeys() {
		vals = append(vals, init[k])
	}
	return krt.NewStaticCollection[Obj](nil, vals, krt.WithStop(stop), krt.WithName(name))
}

func sortedCanon(os []Obj) []string {
	out := make([]string, 0, len(os))
	for _, o := range os {
		out = append(out, o.C())
	}
	sort.Strings(out)
	return out
}

// joinNV renders a list of objects as sorted "name=val" joined by ",": the value of aggregating outputs.
func joinNV(os []Obj) string {
	out := make([]string, 0, len(os))
	for _, o := range os {
		out = append(out, o.Name+"="+o.Val)
	}
	sort.Strings(out)
	return strings.Join(out, ",")
}

func subset(sel, labels map[string]string) bool {
	for k, v := range sel {
		if lv, ok := labels[k]; !ok || lv != v {
			return false
		}
	}
	return true
}
