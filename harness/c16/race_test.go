package c16

import (
	"fmt"
	"testing"

	"istio.io/istio/zz_verif/engine"
	istiolog "istio.io/istio/pkg/log"
)

// TestC16Race is the free-running pass for what the cooperative bubble cannot show: unsynchronised
// accesses between krt's own goroutines (a handler that rewrites a batch another subscriber still has
// to read, an index read while it is rebuilt). The same programs and executions as part `histories`
// (short histories, every burst partition and late-registration point) run in a binary built with
// -race; a race report is the violation (the driver turns it into `data-race:<first istio frame>`).
// The oracle of part `histories` is not evaluated here.
func TestC16Race(t *testing.T) {
	env := engine.GetEnv()
	res := engine.NewResult("C16", "race-pass")
	res.Rule = "every program of part histories x every history of length <= 2 (quick) / 3 (thorough) x every burst partition x every late-registration point, run under -race; a race report between krt's goroutines is a violation; non-trivial = execution that delivered events"
	defer res.Write(t, env)
	for _, sc := range istiolog.Scopes() {
		sc.SetOutputLevel(istiolog.NoneLevel)
	}
	maxLen := 2
	if env.Thorough() {
		maxLen = 3
	}
	res.Bounds["max_history_length"] = maxLen
	var ord int64
	for _, p := range programs() {
		stop := false
		for n := 1; n <= maxLen && !stop; n++ {
			engine.Sequences(len(p.Ops), n, func(_ int64, seq []int) bool {
				if _, ok := walk(p, seq); !ok {
					return true
				}
				nb := 1 << (n - 1)
				for mask := 0; mask < nb; mask++ {
					for reg := 0; reg <= n; reg++ {
						ord++
						if !env.Mine(ord) {
							continue
						}
						if env.Expired() {
							res.Cap("deadline in " + p.Name)
							stop = true
							return false
						}
						out := runExec(t, p, engine.CopyInts(seq), mask, reg, 0, false)
						if out.Infra != "" {
							res.Infra = fmt.Sprintf("%s %v mask=%d reg=%d: %s", p.Name, seq, mask, reg, out.Infra)
							stop = true
							return false
						}
						res.Evaluations++
						res.Traces++
						res.Transitions += int64(n)
						if out.Events > 0 {
							res.NontrivialCase(fmt.Sprintf("%s %v %d %d", p.Name, seq, mask, reg))
						}
						res.Outcome(p.Name)
					}
				}
				return true
			})
		}
	}
}
