package c16

import (
	"fmt"
	"hash/fnv"
	"os"
	"runtime"
	"runtime/debug"
	"strings"
	"testing"

	istiolog "istio.io/istio/pkg/log"
	"istio.io/istio/zz_verif/engine"
)

func programs() []*program {
	return []*program{
		progP1(), progP2(), progP3(), progP4a(), progP4b(), progP5(false), progP5(true), progP6(), progP7(),
		progP8a(false), progP8a(true), progP8b(), progP8c(), progP9(), progP10(), progP11(),
	}
}

type replayCase struct {
	Program string   `json:"program"`
	Ops     []int    `json:"ops"`
	Labels  []string `json:"op_labels"`
	Burst   int      `json:"burst_mask"`
	Reg     int      `json:"late_registration_before_op"`
	Const   int      `json:"runtime_const"`
}

func (p *program) keyName() string {
	if p.Key != "" {
		return p.Key
	}
	return p.Name
}

func labelsOf(p *program, ops []int) []string {
	out := make([]string, len(ops))
	for i, o := range ops {
		out[i] = p.Ops[o].Label
	}
	return out
}

func hashOf(s string) uint64 {
	h := fnv.New64a()
	h.Write([]byte(s))
	return h.Sum64()
}

// walk runs a history through the model only: it returns the input states passed through, or ok=false
// when the history contains a vacuous op (delete of an absent key: same as the shorter history) or passes
// through a state outside the program's krt contract.
func walk(p *program, ops []int) (states []string, ok bool) {
	st := p.Initial.clone()
	for _, oi := range ops {
		if p.Ops[oi].applyModel(st) {
			return nil, false
		}
		if p.Legal != nil && !p.Legal(st) {
			return nil, false
		}
		states = append(states, p.Name+"|"+st.canon())
	}
	return states, true
}

func burstString(labels []string, mask int, reg int) string {
	var b strings.Builder
	for i, l := range labels {
		if reg == i {
			b.WriteString("<late handlers register> ")
		}
		b.WriteString(l)
		if i < len(labels)-1 {
			if mask&(1<<i) != 0 {
				b.WriteString(" ; ")
			} else {
				b.WriteString(" | settle | ")
			}
		}
	}
	if reg >= len(labels) {
		b.WriteString(" | settle | <late handlers register>")
	}
	return b.String()
}

func TestC16(t *testing.T) {
	env := engine.GetEnv()
	res := engine.NewResult("C16", "histories")
	res.Rule = "program = a krt graph over static input collections + the harness's own recomputation of it; case = history of add/update/delete operations (incl. no-op updates, label flips) x partition into bursts (ops of a burst applied back-to-back, then quiescence) x point at which a second set of handlers registers; after every burst List/GetKey/index lookups/probe fetches are compared with the recomputation from the current inputs and every handler's stream is run through the per-key automaton and folded; non-trivial = a case along which the expected contents of some observed collection change"
	defer res.Write(t, env)
	// Own the schedule: a garbage collection that starts inside an execution preempts the running goroutine
	// and requeues it behind the others, which changes the interleaving of krt's goroutines from run to
	// run. Collections are therefore only run between executions.
	debug.SetGCPercent(-1)
	// ... and krt must not write log lines: a write is a system call, during which the runtime may hand the
	// only P to another goroutine of the bubble (again a schedule the harness does not own).
	for _, sc := range istiolog.Scopes() {
		sc.SetOutputLevel(istiolog.NoneLevel)
	}
	progs := programs()
	maxLen := 3
	if env.Thorough() {
		maxLen = 4
	}
	if s := os.Getenv("C16_MAXLEN"); s != "" {
		fmt.Sscan(s, &maxLen)
	}
	deep := 1
	if s := os.Getenv("C16_DEEP"); s != "" {
		fmt.Sscan(s, &deep)
	}
	nconst := 2
	if s := os.Getenv("C16_CONSTS"); s != "" {
		fmt.Sscan(s, &nconst)
	}
	only := os.Getenv("C16_ONLY")
	trace := os.Getenv("C16_TRACE") != ""
	var dump *os.File
	if f := os.Getenv("C16_DUMP"); f != "" {
		dump, _ = os.Create(fmt.Sprintf("%s.%d", f, env.Shard))
		defer dump.Close()
	}

	if env.Replay != "" {
		var r replayCase
		if err := engine.ReadReplay(env.Replay, &r); err != nil {
			t.Fatal(err)
		}
		for _, p := range progs {
			if p.Name != r.Program {
				continue
			}
			t.Logf("replay %s: %s", p.Name, burstString(labelsOf(p, r.Ops), r.Burst, r.Reg))
			out := runExec(t, p, r.Ops, r.Burst, r.Reg, r.Const, true)
			if out.Infra != "" {
				res.Infra = out.Infra
			}
			for _, f := range out.Findings {
				t.Logf("finding %s/%s %s: %s", p.Name, f.View, f.Clause, f.Desc)
				res.Violate(p.keyName()+"/"+f.View+":"+f.Clause, f.Desc, r)
			}
			res.Evaluations++
		}
		return
	}

	// determinism probe: the same case twice must give identical observations
	{
		p := progs[2]
		a := runExec(t, p, []int{6, 1, 8}, 3, 1, 0, false)
		b := runExec(t, p, []int{6, 1, 8}, 3, 1, 0, false)
		if a.Obs != b.Obs || a.Infra != "" {
			res.Infra = "krt execution is not deterministic under the bubble: " + a.Infra
			return
		}
	}

	var names []string
	alpha := map[string]int{}
	for _, p := range progs {
		names = append(names, p.Name)
		alpha[p.Name] = len(p.Ops)
	}
	res.Bounds["programs"] = names
	res.Bounds["alphabet_sizes"] = alpha
	res.Bounds["max_history_length"] = maxLen
	res.Bounds["single_burst_history_length"] = maxLen + deep
	res.Bounds["bursts"] = "every partition of the history into bursts"
	res.Bounds["late_registration_points"] = "before every op and after the last burst"
	res.Bounds["runtime_constants"] = fmt.Sprintf("%d (map layout and select order; each execution starts from the constant)", nconst)

	states := map[string]bool{}
	var ord int64
	sampled := map[string]bool{}
	for _, p := range progs {
		if only != "" && !strings.HasPrefix(p.Name, only) {
			continue
		}
		// the initial state
		if is := p.Name + "|" + p.Initial.canon(); int(hashOf(is)%uint64(max(env.Of, 1))) == env.Shard {
			states[is] = true
		}
		stopAll := false
		// lengths <= maxLen: everything; length maxLen+1: only the history applied as one burst (where krt lags
		// furthest behind its inputs), late handlers registered before it
		for n := 0; n <= maxLen+deep && !stopAll; n++ {
			engine.Sequences(len(p.Ops), n, func(_ int64, seq []int) bool {
				sts, ok := walk(p, seq)
				if !ok {
					if env.Shard == 0 {
						res.Count("histories_skipped_vacuous_or_outside_contract", 1)
					}
					return true
				}
				for _, s := range sts {
					if int(hashOf(s)%uint64(max(env.Of, 1))) == env.Shard {
						states[s] = true
					}
				}
				nb := 1
				if n > 1 {
					nb = 1 << (n - 1)
				}
				mask0, regs := 0, n
				if n > maxLen {
					mask0, regs = nb-1, 0
				}
				for mask := mask0; mask < nb; mask++ {
					for rr := 0; rr < (regs+1)*nconst; rr++ {
						reg, rc := rr/nconst, rr%nconst
						ord++
						if !env.Mine(ord) {
							continue
						}
						if env.Expired() {
							res.Cap(fmt.Sprintf("deadline in %s at history length %d", p.Name, n))
							stopAll = true
							return false
						}
						ops := engine.CopyInts(seq)
						if trace {
							fmt.Fprintf(os.Stderr, "CASE %s %v mask=%d reg=%d const=%d :: %s\n", p.Name, ops, mask, reg, rc, burstString(labelsOf(p, ops), mask, reg))
						}
						out := runExec(t, p, ops, mask, reg, rc, false)
						if res.Evaluations%128 == 127 {
							runtime.GC()
						}
						if dump != nil {
							fmt.Fprintf(dump, "%d %s %v %d %d %d %s\n", ord, p.Name, ops, mask, reg, rc, engine.Hash(out.Obs))
						}
						if out.Infra != "" {
							res.Infra = fmt.Sprintf("%s %v mask=%d reg=%d const=%d: %s", p.Name, ops, mask, reg, rc, out.Infra)
							stopAll = true
							return false
						}
						res.Evaluations++
						res.Traces++
						res.Transitions += int64(n)
						res.Count("events_delivered", int64(out.Events))
						caseKey := fmt.Sprintf("%s %v %d %d %d", p.Name, ops, mask, reg, rc)
						if out.Changed {
							res.NontrivialCase(caseKey)
						}
						if len(out.Findings) == 0 {
							res.Outcome(p.Name + ": ok, final " + engine.Hash(out.Final))
						}
						seen := map[string]bool{}
						for _, f := range out.Findings {
							k := p.keyName() + "/" + f.View + ":" + f.Clause
							if seen[k] {
								continue
							}
							seen[k] = true
							res.Outcome(k)
							res.Violate(k, p.Name+": "+burstString(labelsOf(p, ops), mask, reg)+" => "+f.Desc,
								replayCase{Program: p.Name, Ops: ops, Labels: labelsOf(p, ops), Burst: mask, Reg: reg, Const: rc})
						}
						if n >= maxLen && !sampled[p.Name] && out.Changed && mask != 0 {
							sampled[p.Name] = true
							res.Sample(map[string]any{"program": p.Name, "case": burstString(labelsOf(p, ops), mask, reg), "events_delivered": out.Events})
						}
					}
				}
				return true
			})
		}
	}
	res.States = int64(len(states))
}
