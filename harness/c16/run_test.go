package c16

import (
	"fmt"
	"runtime"
	"sort"
	"strings"
	"sync"
	"testing"
	"testing/synctest"
	"time"

	"istio.io/istio/pkg/kube/controllers"
	"istio.io/istio/pkg/kube/krt"
)

// runtimeConsts is the alphabet of runtime constants (map layout + select order) cases are run under.
var runtimeConsts = []uint64{11400714819323198485, 0x5851f42d4c957f2d, 0x2545f4914f6cdd1d}

// settle = quiescence: every goroutine of the bubble durably blocked, with some virtual time let pass
// in between (krt's sync waits poll with sleeps of up to 100 ms).
func settle() {
	for i := 0; i < 2; i++ {
		synctest.Wait()
		time.Sleep(time.Second)
	}
	synctest.Wait()
}

type finding struct {
	Clause string // oracle clause (part of the violation key)
	View   string
	Desc   string
	Who    string // "early" / "late" for handler clauses, "" for state clauses
}

// tracker is one registered handler: it runs the per-key automaton none -> Add -> (Update)* -> Delete
// -> none over the stream as delivered and folds it.
type tracker struct {
	mu       sync.Mutex
	who      string // "early" | "late"
	view     string
	equalOK  bool
	seen     content
	log      []string
	findings *[]finding
	fmu      *sync.Mutex
	events   int
}

func (tr *tracker) report(clause, desc string) {
	tr.fmu.Lock()
	*tr.findings = append(*tr.findings, finding{Clause: clause, Who: tr.who, View: tr.view, Desc: tr.who + " handler: " + desc + " (stream so far: " + strings.Join(tr.log, " ") + ")"})
	tr.fmu.Unlock()
}

func (tr *tracker) handle(evs []krt.Event[Obj]) {
	tr.mu.Lock()
	defer tr.mu.Unlock()
	for _, e := range evs {
		tr.events++
		switch e.Event {
		case controllers.EventAdd:
			if e.New == nil {
				tr.log = append(tr.log, "add(nil)")
				tr.report("malformed-event", "Add without New")
				continue
			}
			k := key(*e.New)
			tr.log = append(tr.log, "add:"+e.New.C())
			if cur, ok := tr.seen[k]; ok {
				tr.report("duplicate-add", fmt.Sprintf("Add of %s while the handler already holds %s", e.New.C(), cur.C()))
			}
			tr.seen[k] = *e.New
		case controllers.EventUpdate:
			if e.New == nil || e.Old == nil {
				tr.log = append(tr.log, "update(nil)")
				tr.report("malformed-event", "Update without Old or New")
				continue
			}
			k := key(*e.New)
			tr.log = append(tr.log, "update:"+e.Old.C()+"->"+e.New.C())
			cur, ok := tr.seen[k]
			switch {
			case key(*e.Old) != k:
				tr.report("malformed-event", "Update whose Old and New have different keys")
			case !ok:
				tr.report("event-for-unknown-key", fmt.Sprintf("Update of %s which the handler was never told about", k))
			case cur.C() != e.Old.C():
				tr.report("old-value-is-not-last-delivered", fmt.Sprintf("Update of %s carries Old=%s, last value delivered was %s", k, e.Old.C(), cur.C()))
			}
			if e.Old.C() == e.New.C() && !tr.equalOK {
				tr.report("update-with-equal-old-and-new", fmt.Sprintf("Update of %s with Old == New == %s", k, e.New.C()))
			}
			tr.seen[k] = *e.New
		case controllers.EventDelete:
			if e.Old == nil {
				tr.log = append(tr.log, "delete(nil)")
				tr.report("malformed-event", "Delete without Old")
				continue
			}
			k := key(*e.Old)
			tr.log = append(tr.log, "delete:"+e.Old.C())
			cur, ok := tr.seen[k]
			switch {
			case !ok:
				tr.report("event-for-unknown-key", fmt.Sprintf("Delete of %s which the handler does not hold", k))
			case cur.C() != e.Old.C():
				tr.report("old-value-is-not-last-delivered", fmt.Sprintf("Delete of %s carries Old=%s, last value delivered was %s", k, e.Old.C(), cur.C()))
			}
			delete(tr.seen, k)
		}
	}
}

type execOut struct {
	Findings []finding
	Obs      string // everything observed, for the determinism probe
	Events   int
	Changed  bool // some view's expected contents changed along the history (non-trivial)
	Final    string
	Infra    string
}

// runExec runs one execution: program, history (indices into the alphabet), burst mask (bit i set = no
// settling between op i and op i+1), registration point of the late handlers (before op reg; reg ==
// len(ops) = after the last burst).
func runExec(t *testing.T, p *program, ops []int, mask int, reg int, rc int, verbose bool) execOut {
	var out execOut
	var fmu sync.Mutex
	var obs strings.Builder
	fail := func(clause, view, desc string) {
		fmu.Lock()
		out.Findings = append(out.Findings, finding{Clause: clause, View: view, Desc: desc})
		fmu.Unlock()
	}
	body := func() {
		stop := make(chan struct{})
		st := p.Initial.clone()
		inst := p.New(stop, st.clone())
		var trackers []*tracker
		var regs []krt.HandlerRegistration
		register := func(who string) {
			for _, v := range inst.Views {
				if v.Reg == nil {
					continue
				}
				tr := &tracker{who: who, view: v.Name, equalOK: v.EqualUpdateOK, seen: content{}, findings: &out.Findings, fmu: &fmu}
				if v.NoInitial {
					if c := p.Model(st)[v.Name]; c != nil {
						tr.seen = c.clone()
					}
				}
				trackers = append(trackers, tr)
				if r := v.Reg(tr.handle); r != nil {
					regs = append(regs, r)
				}
			}
		}
		// the early handlers register before anything has synced
		register("early")
		prev := ""
		check := func(at string) {
			exp := p.Model(st)
			digest := ""
			actual := map[string]content{}
			for _, v := range inst.Views {
				want := exp[v.Name]
				if want == nil {
					want = content{}
				}
				digest += v.Name + ":" + want.canon() + "\n"
				got := content{}
				dup := false
				for _, o := range v.List() {
					if _, ok := got[key(o)]; ok {
						dup = true
					}
					got[key(o)] = o
				}
				actual[v.Name] = got
				fmt.Fprintf(&obs, "%s %s list %s\n", at, v.Name, got.canon())
				if dup {
					fail("state:list-has-duplicate-key", v.Name, fmt.Sprintf("%s: List returns a key twice", at))
				}
				listOK := got.canon() == want.canon()
				if !listOK {
					fail("state:list", v.Name, fmt.Sprintf("%s: List = {%s} but the function of the current inputs is {%s}; inputs %s", at, got.canon(), want.canon(), st.canon()))
				}
				keys := map[string]bool{"n/never": true}
				for k := range want {
					keys[k] = true
				}
				for k := range got {
					keys[k] = true
				}
				for _, o := range p.Ops {
					if o.Kind == opPut {
						keys[key(o.Obj)] = true
					}
				}
				for k := range keys {
					if !listOK {
						break // GetKey is reported on its own only where it disagrees with a correct List
					}
					g := v.Get(k)
					w, ok := want[k]
					switch {
					case g == nil && ok:
						fail("state:getkey", v.Name, fmt.Sprintf("%s: GetKey(%s) = nil, expected %s; inputs %s", at, k, w.C(), st.canon()))
					case g != nil && !ok:
						fail("state:getkey", v.Name, fmt.Sprintf("%s: GetKey(%s) = %s, expected nil; inputs %s", at, k, g.C(), st.canon()))
					case g != nil && g.C() != w.C():
						fail("state:getkey", v.Name, fmt.Sprintf("%s: GetKey(%s) = %s, expected %s; inputs %s", at, k, g.C(), w.C(), st.canon()))
					}
				}
			}
			if p.LookupModel != nil {
				lm := p.LookupModel(st)
				for _, l := range inst.Lookups {
					for _, k := range l.Keys {
						got := strings.Join(sortedCanon(l.Fn(k)), " ")
						want := strings.Join(lm[l.Name][k], " ")
						fmt.Fprintf(&obs, "%s lookup %s[%s] %s\n", at, l.Name, k, got)
						if got != want {
							fail("state:index-lookup", l.Name, fmt.Sprintf("%s: Lookup(%s) = [%s], expected [%s]; inputs %s", at, k, got, want, st.canon()))
						}
					}
				}
			}
			for _, tr := range trackers {
				tr.mu.Lock()
				want := exp[tr.view]
				if want == nil {
					want = content{}
				}
				// a stream that folds to what the collection (wrongly, and already reported) holds is consistent with it
				if tr.seen.canon() != want.canon() && !(actual[tr.view] != nil && actual[tr.view].canon() != want.canon() && tr.seen.canon() == actual[tr.view].canon()) {
					tr.report("stream-does-not-fold-to-contents", fmt.Sprintf("%s: folding the delivered events gives {%s}, the collection must hold {%s}", at, tr.seen.canon(), want.canon()))
				}
				tr.mu.Unlock()
			}
			if prev != "" && prev != digest {
				out.Changed = true
			}
			prev = digest
			out.Final = digest
		}
		crashed := func(at string) bool {
			if inst.Panicked == nil {
				return false
			}
			ps := inst.Panicked()
			for _, m := range ps {
				fmt.Fprintf(&obs, "%s panic %s\n", at, m)
				fail("panic:"+strings.SplitN(m, " ", 2)[0], "-", fmt.Sprintf("%s: krt panicked in a handler goroutine (this kills the process): %s", at, m))
			}
			return len(ps) > 0
		}
		settle()
		dead := crashed("during initial sync")
		if !dead {
			check("after initial sync")
		}
		for i, oi := range ops {
			if dead {
				break
			}
			if reg == i {
				register("late")
			}
			o := p.Ops[oi]
			if inst.Apply != nil {
				err := inst.Apply(o)
				if o.Kind >= opCreate {
					_, present := st[o.Coll][key(o.Obj)]
					if o.Kind == opRemove {
						_, present = st[o.Coll][o.Key]
					}
					wantErr := present == (o.Kind == opCreate)
					if wantErr != (err != nil) {
						fail("state:operation-result", "store", fmt.Sprintf("op %d (%s): error = %v, but the key was present=%v", i+1, o.Label, err, present))
					}
				}
			} else {
				switch o.Kind {
				case opPut:
					if inst.Conditional {
						inst.Inputs[o.Coll].ConditionalUpdateObject(o.Obj)
					} else {
						inst.Inputs[o.Coll].UpdateObject(o.Obj)
					}
				case opDel:
					inst.Inputs[o.Coll].DeleteObject(o.Key)
				default:
					panic("op kind needs instance.Apply")
				}
			}
			o.applyModel(st)
			if i == len(ops)-1 || mask&(1<<i) == 0 {
				settle()
				if dead = crashed(fmt.Sprintf("after op %d (%s)", i+1, o.Label)); !dead {
					check(fmt.Sprintf("after op %d (%s)", i+1, o.Label))
				}
			}
		}
		if reg >= len(ops) && !dead {
			register("late")
			settle()
			if !crashed("after late registration") {
				check("after late registration")
			}
		}
		for _, tr := range trackers {
			tr.mu.Lock()
			out.Events += tr.events
			fmt.Fprintf(&obs, "stream %s/%s: %s\n", tr.who, tr.view, strings.Join(tr.log, " "))
			tr.mu.Unlock()
		}
		for _, r := range regs {
			r.UnregisterHandler()
		}
		close(stop)
		settle()
	}
	func() {
		defer func() {
			if r := recover(); r != nil {
				msg := fmt.Sprint(r)
				if strings.Contains(msg, "deadlock") || strings.Contains(msg, "blocked goroutines") || strings.Contains(msg, "synctest") {
					out.Infra = msg
					return
				}
				// a panic on the harness goroutine inside krt code (registration, Update, List ...)
				fail("panic", "-", "panic: "+firstLine(msg))
			}
		}()
		// Every execution starts from the same runtime constant: map seeds / iteration offsets and the stream
		// that orders ready select cases (krt's per-handler pop loop selects between "hand the pending
		// notification on" and "accept the next one"). This makes a case independent of what ran before it
		// (replay = exploration) and lets the constant be an enumerated dimension.
		runtime.VerifSetMapRand(runtimeConsts[rc%len(runtimeConsts)])
		synctest.Test(t, func(*testing.T) { body() })
	}()
	out.Obs = obs.String()
	if verbose {
		t.Log("\n" + out.Obs)
	}
	out.Findings = consolidate(out.Findings, p.Upstream)
	return out
}

// consolidate turns the raw findings of one execution into few keys per root cause: findings on a view
// whose upstream view is itself wrong are dropped, one finding per (view, clause) is kept, and a handler
// clause seen by both the early and the late handler is reported once.
func consolidate(fs []finding, upstream map[string]string) []finding {
	bad := map[string]bool{}
	for _, f := range fs {
		bad[f.View] = true
	}
	type vk struct{ view, clause string }
	who := map[vk]map[string]bool{}
	first := map[vk]finding{}
	var order []vk
	for _, f := range fs {
		if up, ok := upstream[f.View]; ok && bad[up] {
			continue
		}
		k := vk{f.View, f.Clause}
		if _, ok := first[k]; !ok {
			first[k] = f
			order = append(order, k)
			who[k] = map[string]bool{}
		}
		who[k][f.Who] = true
	}
	sort.Slice(order, func(i, j int) bool {
		if order[i].view != order[j].view {
			return order[i].view < order[j].view
		}
		return order[i].clause < order[j].clause
	})
	var out []finding
	for _, k := range order {
		f := first[k]
		switch {
		case who[k]["early"]:
			// (a late handler that registered after the offending event cannot see it: no separate key)
			f.Clause = "handlers:" + f.Clause
		case who[k]["late"]:
			// only the handler that registered late (with runExistingState) is affected
			f.Clause = "late-handler-only:" + f.Clause
		}
		out = append(out, f)
	}
	return out
}

// panicSite renders a recovered panic as "<krt function> <message>" using the stack at recovery.
func panicSite(r any, stack string) string {
	site := "unknown"
	for _, ln := range strings.Split(stack, "\n") {
		if strings.HasPrefix(ln, "istio.io/istio/pkg/kube/krt.") && !strings.Contains(ln, "verifRecover") {
			f := strings.TrimPrefix(ln, "istio.io/istio/pkg/kube/krt.")
			if i := strings.LastIndex(f, "("); i > 0 {
				f = f[:i]
			}
			f = strings.NewReplacer("[...]", "", "(*", "", ")", "").Replace(f)
			site = f
			break
		}
	}
	return site + " " + firstLine(fmt.Sprint(r))
}

func firstLine(s string) string {
	if i := strings.IndexByte(s, '\n'); i >= 0 {
		return s[:i]
	}
	return s
}
