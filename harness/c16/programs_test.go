package c16

import (
	"runtime/debug"
	"sort"
	"strings"
	"sync"

	"k8s.io/apimachinery/pkg/types"

	"istio.io/istio/pkg/kube/krt"
)

// Every program is written twice: New builds it on real krt (transformations call krt.Fetch), Model
// recomputes the same function as plain Go over the maps of current inputs.

func joinKV(os []Obj) string {
	out := make([]string, 0, len(os))
	for _, o := range os {
		out = append(out, key(o)+"="+o.Val)
	}
	sort.Strings(out)
	return strings.Join(out, ",")
}

func values(c content) []Obj {
	out := make([]Obj, 0, len(c))
	for _, k := range c.sortedKeys() {
		out = append(out, c[k])
	}
	return out
}

func filterObjs(c content, f func(Obj) bool) []Obj {
	var out []Obj
	for _, o := range values(c) {
		if f(o) {
			out = append(out, o)
		}
	}
	return out
}

func opts(stop chan struct{}, name string) []krt.CollectionOption {
	return []krt.CollectionOption{krt.WithStop(stop), krt.WithName(name)}
}

// ---- probe: a collection that Fetches from an observed collection with no filter / a key filter / a
// label filter; its contents are again a function of the inputs.

var probeLabel = map[string]string{"app": "a"}

func probeOf(stop chan struct{}, target krt.Collection[Obj], k string) krt.Collection[Obj] {
	qs := staticOf(stop, "probe-queries", content{"n/q-all": N("q-all", ""), "n/q-key": N("q-key", ""), "n/q-lbl": N("q-lbl", "")})
	return krt.NewCollection(qs, func(ctx krt.HandlerContext, q Obj) *Obj {
		var res []Obj
		switch q.Name {
		case "q-all":
			res = krt.Fetch(ctx, target)
		case "q-key":
			res = krt.Fetch(ctx, target, krt.FilterKey(k))
		case "q-lbl":
			res = krt.Fetch(ctx, target, krt.FilterLabel(probeLabel))
		}
		return &Obj{Named: q.Named, Val: joinKV(res)}
	}, opts(stop, "probe")...)
}

func probeModel(c content, k string) content {
	out := content{}
	out["n/q-all"] = N("q-all", joinKV(values(c)))
	out["n/q-key"] = N("q-key", joinKV(filterObjs(c, func(o Obj) bool { return key(o) == k })))
	out["n/q-lbl"] = N("q-lbl", joinKV(filterObjs(c, func(o Obj) bool { return subset(probeLabel, o.Labels) })))
	return out
}

func appLabel(o Obj) map[string]string {
	if v, ok := o.Labels["app"]; ok {
		return L("app", v)
	}
	return nil
}

// identity is a derived one-to-one copy of a static collection (so that the copy's events come out of
// krt's own diffing, which suppresses no-op updates).
func identity(stop chan struct{}, name string, c krt.Collection[Obj]) krt.Collection[Obj] {
	return krt.NewCollection(c, func(ctx krt.HandlerContext, o Obj) *Obj { return &o }, opts(stop, name)...)
}

// ---- P1 one-to-one

func p1Fn(o Obj) *Obj {
	if o.Labels["hide"] == "y" {
		return nil
	}
	return &Obj{Named: o.Named, Val: "t:" + o.Val, Labels: appLabel(o)}
}

func p1Model(in content) content {
	out := content{}
	for k, o := range in {
		if r := p1Fn(o); r != nil {
			out[k] = *r
		}
	}
	return out
}

func progP1() *program {
	v1 := func(n string) Obj { return N(n, "v1").withLabels("app", "a") }
	return &program{
		Name:     "P1-one-to-one",
		Upstream: map[string]string{"probe": "out"},
		About:    "NewCollection over one static input: value change, output-neutral input change, object hidden/shown (nil result), label flip seen by a label-filtered probe; index over the derived collection",
		Initial:  state{content{"n/a": v1("a")}},
		Ops: []op{
			put(0, "a=v1", v1("a")),
			put(0, "a=v2", N("a", "v2").withLabels("app", "a")),
			put(0, "a=v1+neutral-label", N("a", "v1").withLabels("app", "a", "extra", "1")),
			put(0, "a=v1+hidden", N("a", "v1").withLabels("app", "a", "hide", "y")),
			put(0, "a=v1,app=b", N("a", "v1").withLabels("app", "b")),
			put(0, "b=v1", v1("b")),
			put(0, "b=v2", N("b", "v2").withLabels("app", "a")),
			put(0, "b=v1+hidden", N("b", "v1").withLabels("app", "a", "hide", "y")),
			del(0, "del a", "n/a"),
			del(0, "del b", "n/b"),
		},
		New: func(stop chan struct{}, init state) *instance {
			x := staticOf(stop, "X", init[0])
			out := krt.NewCollection(x, func(ctx krt.HandlerContext, o Obj) *Obj { return p1Fn(o) }, opts(stop, "out")...)
			idx := krt.NewIndex(out, "byval", func(o Obj) []string { return []string{o.Val} })
			pr := probeOf(stop, out, "n/a")
			return &instance{
				Inputs:  []krt.StaticCollection[Obj]{x},
				Views:   []view{viewOf("out", out), viewOf("probe", pr)},
				Lookups: []lookup{{Name: "out.byval", Keys: []string{"t:v1", "t:v2", "t:none"}, Fn: idx.Lookup}},
			}
		},
		Model: func(st state) map[string]content {
			out := p1Model(st[0])
			return map[string]content{"out": out, "probe": probeModel(out, "n/a")}
		},
		LookupModel: func(st state) map[string]map[string][]string {
			out := p1Model(st[0])
			m := map[string][]string{}
			for _, k := range []string{"t:v1", "t:v2", "t:none"} {
				m[k] = sortedCanon(filterObjs(out, func(o Obj) bool { return o.Val == k }))
			}
			return map[string]map[string][]string{"out.byval": m}
		},
	}
}

// ---- P2 one-to-many, an output key moves between parents

func p2Fn(o Obj) []Obj {
	var res []Obj
	for _, r := range o.Refs {
		res = append(res, Obj{Named: named("n", r), Val: o.Name + ":" + o.Val})
	}
	return res
}

func p2Model(in content) (content, bool) {
	out := content{}
	legal := true
	for _, o := range values(in) {
		for _, r := range p2Fn(o) {
			if _, dup := out[key(r)]; dup {
				legal = false
			}
			out[key(r)] = r
		}
	}
	return out, legal
}

func progP2() *program {
	return &program{
		Name:     "P2-one-to-many",
		Upstream: map[string]string{"probe": "out"},
		About:    "NewManyCollection: each parent lists the output keys it produces; outputs appear, disappear, change and move from one parent to the other (never produced by two parents at once: krt's contract)",
		Initial:  state{content{"n/a": N("a", "1").withRefs("x"), "n/b": N("b", "1")}},
		Ops: []op{
			put(0, "a->{x}", N("a", "1").withRefs("x")),
			put(0, "a->{x,y}", N("a", "1").withRefs("x", "y")),
			put(0, "a->{}", N("a", "1")),
			put(0, "a->{x} val2", N("a", "2").withRefs("x")),
			put(0, "b->{x}", N("b", "1").withRefs("x")),
			put(0, "b->{y}", N("b", "1").withRefs("y")),
			put(0, "b->{}", N("b", "1")),
			del(0, "del a", "n/a"),
			del(0, "del b", "n/b"),
		},
		New: func(stop chan struct{}, init state) *instance {
			x := staticOf(stop, "X", init[0])
			out := krt.NewManyCollection(x, func(ctx krt.HandlerContext, o Obj) []Obj { return p2Fn(o) }, opts(stop, "out")...)
			pr := probeOf(stop, out, "n/x")
			return &instance{Inputs: []krt.StaticCollection[Obj]{x}, Views: []view{viewOf("out", out), viewOf("probe", pr)}}
		},
		Model: func(st state) map[string]content {
			out, _ := p2Model(st[0])
			return map[string]content{"out": out, "probe": probeModel(out, "n/x")}
		},
		Legal: func(st state) bool { _, ok := p2Model(st[0]); return ok },
	}
}

// ---- P3 Fetch by key from a second collection

func p3Model(xs, ys content) content {
	out := content{}
	for k, o := range xs {
		yv := "-"
		if len(o.Refs) > 0 {
			if y, ok := ys["n/"+o.Refs[0]]; ok {
				yv = y.Val
			}
		}
		out[k] = Obj{Named: o.Named, Val: o.Val + "+" + yv}
	}
	return out
}

func progP3() *program {
	return &program{
		Name:     "P3-fetch-by-key",
		Upstream: map[string]string{"probe": "out"},
		About:    "NewCollection whose transformation FetchOne's an object of a second collection by FilterKey; the referenced object appears, changes, disappears; the reference moves",
		Initial:  state{content{"n/a": N("a", "1").withRefs("y1")}, content{"n/y1": N("y1", "v1")}},
		Ops: []op{
			put(0, "a->y1", N("a", "1").withRefs("y1")),
			put(0, "a->y2", N("a", "1").withRefs("y2")),
			put(0, "b->y1", N("b", "1").withRefs("y1")),
			del(0, "del a", "n/a"),
			del(0, "del b", "n/b"),
			put(1, "y1=v1", N("y1", "v1")),
			put(1, "y1=v2", N("y1", "v2")),
			put(1, "y2=v1", N("y2", "v1")),
			del(1, "del y1", "n/y1"),
			del(1, "del y2", "n/y2"),
		},
		New: func(stop chan struct{}, init state) *instance {
			x := staticOf(stop, "X", init[0])
			y := staticOf(stop, "Y", init[1])
			out := krt.NewCollection(x, func(ctx krt.HandlerContext, o Obj) *Obj {
				yv := "-"
				if len(o.Refs) > 0 {
					if f := krt.FetchOne(ctx, krt.Collection[Obj](y), krt.FilterKey("n/"+o.Refs[0])); f != nil {
						yv = f.Val
					}
				}
				return &Obj{Named: o.Named, Val: o.Val + "+" + yv}
			}, opts(stop, "out")...)
			pr := probeOf(stop, out, "n/a")
			return &instance{Inputs: []krt.StaticCollection[Obj]{x, y}, Views: []view{viewOf("out", out), viewOf("probe", pr)}}
		},
		Model: func(st state) map[string]content {
			out := p3Model(st[0], st[1])
			return map[string]content{"out": out, "probe": probeModel(out, "n/a")}
		},
	}
}

// ---- P4a FilterLabel: services select pods

func p4aModel(svcs, pods content) content {
	out := content{}
	for k, s := range svcs {
		out[k] = Obj{Named: s.Named, Val: joinNV(filterObjs(pods, func(p Obj) bool { return subset(s.Selector, p.Labels) }))}
	}
	return out
}

func progP4a() *program {
	return &program{
		Name:    "P4a-filter-label",
		About:   "NewCollection over services whose transformation Fetches pods with FilterLabel(selector): pods start / stop matching by label flip, change value, selector changes, empty selector",
		Initial: state{content{"n/s1": N("s1", "").withSel("app", "a")}, content{"n/p1": N("p1", "v1").withLabels("app", "a")}},
		Ops: []op{
			put(0, "s1 sel app=a", N("s1", "").withSel("app", "a")),
			put(0, "s1 sel app=b", N("s1", "").withSel("app", "b")),
			put(0, "s2 sel {}", N("s2", "")),
			del(0, "del s1", "n/s1"),
			del(0, "del s2", "n/s2"),
			put(1, "p1 app=a v1", N("p1", "v1").withLabels("app", "a")),
			put(1, "p1 app=b v1", N("p1", "v1").withLabels("app", "b")),
			put(1, "p1 app=a v2", N("p1", "v2").withLabels("app", "a")),
			put(1, "p2 app=a v1", N("p2", "v1").withLabels("app", "a")),
			put(1, "p2 app=b v1", N("p2", "v1").withLabels("app", "b")),
			del(1, "del p1", "n/p1"),
			del(1, "del p2", "n/p2"),
		},
		New: func(stop chan struct{}, init state) *instance {
			svcs := staticOf(stop, "Services", init[0])
			pods := staticOf(stop, "Pods", init[1])
			out := krt.NewCollection(svcs, func(ctx krt.HandlerContext, s Obj) *Obj {
				return &Obj{Named: s.Named, Val: joinNV(krt.Fetch(ctx, krt.Collection[Obj](pods), krt.FilterLabel(s.Selector)))}
			}, opts(stop, "out")...)
			return &instance{Inputs: []krt.StaticCollection[Obj]{svcs, pods}, Views: []view{viewOf("out", out)}}
		},
		Model: func(st state) map[string]content {
			return map[string]content{"out": p4aModel(st[0], st[1])}
		},
	}
}

// ---- P4b FilterSelects: policies select pods

func p4bModel(pods, pols content) content {
	out := content{}
	for k, p := range pods {
		out[k] = Obj{Named: p.Named, Val: joinNV(filterObjs(pols, func(q Obj) bool { return subset(q.Selector, p.Labels) }))}
	}
	return out
}

func progP4b() *program {
	return &program{
		Name:    "P4b-filter-selects",
		About:   "NewCollection over pods whose transformation Fetches the policies that select the pod (FilterSelects(labels)): a policy's selector flips, becomes empty (selects all), pods change labels",
		Initial: state{content{"n/p1": N("p1", "").withLabels("app", "a")}, content{"n/q1": N("q1", "v1").withSel("app", "a")}},
		Ops: []op{
			put(0, "p1 app=a", N("p1", "").withLabels("app", "a")),
			put(0, "p1 app=b", N("p1", "").withLabels("app", "b")),
			put(0, "p2 app=a", N("p2", "").withLabels("app", "a")),
			del(0, "del p1", "n/p1"),
			del(0, "del p2", "n/p2"),
			put(1, "q1 sel app=a", N("q1", "v1").withSel("app", "a")),
			put(1, "q1 sel app=b", N("q1", "v1").withSel("app", "b")),
			put(1, "q1 sel {}", N("q1", "v1")),
			put(1, "q1 sel app=a v2", N("q1", "v2").withSel("app", "a")),
			put(1, "q2 sel app=a", N("q2", "v1").withSel("app", "a")),
			del(1, "del q1", "n/q1"),
			del(1, "del q2", "n/q2"),
		},
		New: func(stop chan struct{}, init state) *instance {
			pods := staticOf(stop, "Pods", init[0])
			pols := staticOf(stop, "Policies", init[1])
			out := krt.NewCollection(pods, func(ctx krt.HandlerContext, p Obj) *Obj {
				return &Obj{Named: p.Named, Val: joinNV(krt.Fetch(ctx, krt.Collection[Obj](pols), krt.FilterSelects(p.Labels)))}
			}, opts(stop, "out")...)
			return &instance{Inputs: []krt.StaticCollection[Obj]{pods, pols}, Views: []view{viewOf("out", out)}}
		},
		Model: func(st state) map[string]content {
			return map[string]content{"out": p4bModel(st[0], st[1])}
		},
	}
}

// ---- P5 NewIndex + FilterIndex (index over a static / over a derived collection)

func p5Model(xs, ys content) content {
	out := content{}
	for k, o := range xs {
		out[k] = Obj{Named: o.Named, Val: o.Val + ":" + joinNV(filterObjs(ys, func(y Obj) bool {
			for _, r := range y.Refs {
				if r == o.Val {
					return true
				}
			}
			return false
		}))}
	}
	return out
}

func progP5(derived bool) *program {
	name := "P5s-index-on-static"
	if derived {
		name = "P5d-index-on-derived"
	}
	return &program{
		Name:    name,
		About:   "NewIndex over a second collection (objects carry several index keys and move between them) + Fetch with FilterIndex; Index.Lookup compared directly",
		Initial: state{content{"n/a": N("a", "k1")}, content{"n/y1": N("y1", "v1").withRefs("k1")}},
		Ops: []op{
			put(0, "a wants k1", N("a", "k1")),
			put(0, "a wants k2", N("a", "k2")),
			put(0, "b wants k1", N("b", "k1")),
			del(0, "del a", "n/a"),
			put(1, "y1 in {k1}", N("y1", "v1").withRefs("k1")),
			put(1, "y1 in {k2}", N("y1", "v1").withRefs("k2")),
			put(1, "y1 in {k1,k2}", N("y1", "v1").withRefs("k1", "k2")),
			put(1, "y1 in {k1} v2", N("y1", "v2").withRefs("k1")),
			put(1, "y2 in {k1}", N("y2", "v1").withRefs("k1")),
			del(1, "del y1", "n/y1"),
			del(1, "del y2", "n/y2"),
		},
		New: func(stop chan struct{}, init state) *instance {
			x := staticOf(stop, "X", init[0])
			y := staticOf(stop, "Y", init[1])
			var yc krt.Collection[Obj] = y
			if derived {
				yc = identity(stop, "Yd", y)
			}
			idx := krt.NewIndex(yc, "byref", func(o Obj) []string { return o.Refs })
			out := krt.NewCollection(x, func(ctx krt.HandlerContext, o Obj) *Obj {
				return &Obj{Named: o.Named, Val: o.Val + ":" + joinNV(krt.Fetch(ctx, yc, krt.FilterIndex(idx, o.Val)))}
			}, opts(stop, "out")...)
			return &instance{
				Inputs:  []krt.StaticCollection[Obj]{x, y},
				Views:   []view{viewOf("out", out)},
				Lookups: []lookup{{Name: "Y.byref", Keys: []string{"k1", "k2", "k3"}, Fn: idx.Lookup}},
			}
		},
		Model: func(st state) map[string]content {
			return map[string]content{"out": p5Model(st[0], st[1])}
		},
		LookupModel: func(st state) map[string]map[string][]string {
			m := map[string][]string{}
			for _, k := range []string{"k1", "k2", "k3"} {
				m[k] = sortedCanon(filterObjs(st[1], func(y Obj) bool {
					for _, r := range y.Refs {
						if r == k {
							return true
						}
					}
					return false
				}))
			}
			return map[string]map[string][]string{"Y.byref": m}
		},
	}
}

// ---- P6 FilterGeneric

func progP6() *program {
	return &program{
		Name:    "P6-filter-generic",
		About:   "Fetch with FilterGeneric(predicate over the fetched object's value, closed over the input's value)",
		Initial: state{content{"n/a": N("a", "v1")}, content{"n/y1": N("y1", "v1")}},
		Ops: []op{
			put(0, "a wants v1", N("a", "v1")),
			put(0, "a wants v2", N("a", "v2")),
			put(0, "b wants v2", N("b", "v2")),
			del(0, "del a", "n/a"),
			del(0, "del b", "n/b"),
			put(1, "y1=v1", N("y1", "v1")),
			put(1, "y1=v2", N("y1", "v2")),
			put(1, "y2=v1", N("y2", "v1")),
			put(1, "y2=v2", N("y2", "v2")),
			del(1, "del y1", "n/y1"),
			del(1, "del y2", "n/y2"),
		},
		New: func(stop chan struct{}, init state) *instance {
			x := staticOf(stop, "X", init[0])
			y := staticOf(stop, "Y", init[1])
			out := krt.NewCollection(x, func(ctx krt.HandlerContext, o Obj) *Obj {
				want := o.Val
				got := krt.Fetch(ctx, krt.Collection[Obj](y), krt.FilterGeneric(func(a any) bool { return a.(Obj).Val == want }))
				return &Obj{Named: o.Named, Val: want + ":" + joinNV(got)}
			}, opts(stop, "out")...)
			return &instance{Inputs: []krt.StaticCollection[Obj]{x, y}, Views: []view{viewOf("out", out)}}
		},
		Model: func(st state) map[string]content {
			out := content{}
			for k, o := range st[0] {
				out[k] = Obj{Named: o.Named, Val: o.Val + ":" + joinNV(filterObjs(st[1], func(y Obj) bool { return y.Val == o.Val }))}
			}
			return map[string]content{"out": out}
		},
	}
}

// ---- P7 singleton over a fetched list, and a collection that fetches the singleton

func p7Single(ys content) *Obj {
	m := filterObjs(ys, func(y Obj) bool { return subset(probeLabel, y.Labels) })
	if len(m) == 0 {
		return nil
	}
	return &Obj{Named: named("n", "single"), Val: joinNV(m)}
}

func progP7() *program {
	return &program{
		Name:     "P7-singleton",
		Upstream: map[string]string{"users": "single"},
		About:    "NewSingleton over a label-filtered Fetch of a list (nil when nothing matches: the singleton disappears and reappears), plus a collection whose transformation fetches the singleton",
		Initial:  state{content{"n/y1": N("y1", "v1").withLabels("app", "a")}, content{"n/a": N("a", "1")}},
		Ops: []op{
			put(0, "y1 app=a v1", N("y1", "v1").withLabels("app", "a")),
			put(0, "y1 app=a v2", N("y1", "v2").withLabels("app", "a")),
			put(0, "y1 app=b v1", N("y1", "v1").withLabels("app", "b")),
			put(0, "y2 app=a v1", N("y2", "v1").withLabels("app", "a")),
			put(0, "y2 app=b v1", N("y2", "v1").withLabels("app", "b")),
			del(0, "del y1", "n/y1"),
			del(0, "del y2", "n/y2"),
			put(1, "a=1", N("a", "1")),
			put(1, "a=2", N("a", "2")),
			put(1, "b=1", N("b", "1")),
			del(1, "del a", "n/a"),
		},
		New: func(stop chan struct{}, init state) *instance {
			y := staticOf(stop, "Y", init[0])
			x := staticOf(stop, "X", init[1])
			single := krt.NewSingleton(func(ctx krt.HandlerContext) *Obj {
				m := krt.Fetch(ctx, krt.Collection[Obj](y), krt.FilterLabel(probeLabel))
				if len(m) == 0 {
					return nil
				}
				return &Obj{Named: named("n", "single"), Val: joinNV(m)}
			}, opts(stop, "single")...)
			users := krt.NewCollection(x, func(ctx krt.HandlerContext, o Obj) *Obj {
				s := krt.FetchOne(ctx, single.AsCollection())
				sv := "-"
				if s != nil {
					sv = s.Val
				}
				return &Obj{Named: o.Named, Val: o.Val + "/" + sv}
			}, opts(stop, "users")...)
			sv := viewOf("single", single.AsCollection())
			return &instance{
				Inputs: []krt.StaticCollection[Obj]{y, x},
				Views:  []view{sv, viewOf("users", users)},
				Lookups: []lookup{{Name: "single.Get", Keys: []string{""}, Fn: func(string) []Obj {
					if g := single.Get(); g != nil {
						return []Obj{*g}
					}
					return nil
				}}},
			}
		},
		Model: func(st state) map[string]content {
			s := p7Single(st[0])
			sc := content{}
			sv := "-"
			if s != nil {
				sc[key(*s)] = *s
				sv = s.Val
			}
			users := content{}
			for k, o := range st[1] {
				users[k] = Obj{Named: o.Named, Val: o.Val + "/" + sv}
			}
			return map[string]content{"single": sc, "users": users}
		},
		LookupModel: func(st state) map[string]map[string][]string {
			var r []string
			if s := p7Single(st[0]); s != nil {
				r = []string{s.C()}
			}
			return map[string]map[string][]string{"single.Get": {"": r}}
		},
	}
}

// ---- P8 joins

func p8Ops() []op {
	return []op{
		put(0, "part0 k1=p0v1", N("k1", "p0v1")),
		put(0, "part0 k1=p0v2", N("k1", "p0v2")),
		del(0, "part0 del k1", "n/k1"),
		put(1, "part1 k1=p1v1", N("k1", "p1v1")),
		put(1, "part1 k1=p1v2", N("k1", "p1v2")),
		del(1, "part1 del k1", "n/k1"),
		put(1, "part1 k2=p1", N("k2", "p1")),
		del(1, "part1 del k2", "n/k2"),
		put(2, "part2 k1=p2v1", N("k1", "p2v1")),
		del(2, "part2 del k1", "n/k1"),
		put(2, "part2 k2=p2", N("k2", "p2")),
		del(2, "part2 del k2", "n/k2"),
	}
}

func firstWins(st state) content {
	out := content{}
	for i := len(st) - 1; i >= 0; i-- {
		for k, o := range st[i] {
			out[k] = o
		}
	}
	return out
}

var p8aLookupKeys = []string{"p0v1", "p1v1", "p1v2", "p1", "p2", "p2v1"}

// progP8a: JoinCollection (checked): the first part that has a key wins.
func progP8a(derivedParts bool) *program {
	name := "P8a-join-checked-static-parts"
	if derivedParts {
		name = "P8a-join-checked-derived-parts"
	}
	return &program{
		Name:     name,
		Key:      "P8a-join-checked",
		Upstream: map[string]string{"probe": "join"},
		About:    "JoinCollection of three parts with the same key in several parts: the first part wins; a part gains / loses / changes a key that another part shadows or is shadowed by",
		Initial:  state{content{}, content{"n/k1": N("k1", "p1v1")}, content{}},
		Ops:      p8Ops(),
		New: func(stop chan struct{}, init state) *instance {
			var ins []krt.StaticCollection[Obj]
			var parts []krt.Collection[Obj]
			for i := range init {
				s := staticOf(stop, "part"+string(rune('0'+i)), init[i])
				ins = append(ins, s)
				if derivedParts {
					parts = append(parts, identity(stop, "part-copy"+string(rune('0'+i)), s))
				} else {
					parts = append(parts, s)
				}
			}
			j := krt.JoinCollection(parts, opts(stop, "join")...)
			idx := krt.NewIndex(j, "byval", func(o Obj) []string { return []string{o.Val} })
			pr := probeOf(stop, j, "n/k1")
			// static parts forward every UpdateObject as an event, also a no-op one: use the conditional update there
			return &instance{
				Inputs: ins, Views: []view{viewOf("join", j), viewOf("probe", pr)}, Conditional: !derivedParts,
				Lookups: []lookup{{Name: "join.byval", Keys: p8aLookupKeys, Fn: idx.Lookup}},
			}
		},
		Model: func(st state) map[string]content {
			out := firstWins(st)
			return map[string]content{"join": out, "probe": probeModel(out, "n/k1")}
		},
		LookupModel: func(st state) map[string]map[string][]string {
			out := firstWins(st)
			m := map[string][]string{}
			for _, k := range p8aLookupKeys {
				m[k] = sortedCanon(filterObjs(out, func(o Obj) bool { return o.Val == k }))
			}
			return map[string]map[string][]string{"join.byval": m}
		},
	}
}

// progP8b: unchecked join of disjoint parts.
func progP8b() *program {
	return &program{
		Name:     "P8b-join-unchecked",
		Upstream: map[string]string{"probe": "join"},
		About:    "JoinCollection WithJoinUnchecked over parts with disjoint keys (overlap is documented as undefined and not generated)",
		Initial:  state{content{"n/a": N("a", "v1")}, content{}},
		Ops: []op{
			put(0, "part0 a=v1", N("a", "v1")),
			put(0, "part0 a=v2", N("a", "v2")),
			del(0, "part0 del a", "n/a"),
			put(1, "part1 b=v1", N("b", "v1")),
			put(1, "part1 b=v2", N("b", "v2")),
			del(1, "part1 del b", "n/b"),
			put(1, "part1 c=v1", N("c", "v1")),
			del(1, "part1 del c", "n/c"),
		},
		New: func(stop chan struct{}, init state) *instance {
			p0 := staticOf(stop, "part0", init[0])
			p1 := staticOf(stop, "part1", init[1])
			j := krt.JoinCollection([]krt.Collection[Obj]{identity(stop, "copy0", p0), identity(stop, "copy1", p1)}, append(opts(stop, "join"), krt.WithJoinUnchecked())...)
			pr := probeOf(stop, j, "n/a")
			return &instance{Inputs: []krt.StaticCollection[Obj]{p0, p1}, Views: []view{viewOf("join", j), viewOf("probe", pr)}}
		},
		Model: func(st state) map[string]content {
			out := firstWins(st)
			return map[string]content{"join": out, "probe": probeModel(out, "n/a")}
		},
	}
}

func mergeVals(ts []Obj) *Obj {
	if len(ts) == 0 {
		return nil
	}
	vs := make([]string, 0, len(ts))
	for _, t := range ts {
		vs = append(vs, t.Val)
	}
	sort.Strings(vs)
	return &Obj{Named: ts[0].Named, Val: strings.Join(vs, "+")}
}

func mergedModel(parts []content) content {
	by := map[string][]Obj{}
	for _, p := range parts {
		for k, o := range p {
			by[k] = append(by[k], o)
		}
	}
	out := content{}
	for k, ts := range by {
		out[k] = *mergeVals(ts)
	}
	return out
}

// progP8c: JoinWithMergeCollection.
func progP8c() *program {
	lk := []string{"p1v1", "p0v1+p1v1", "p1", "zz"}
	return &program{
		Name:     "P8c-join-merge",
		Upstream: map[string]string{"probe": "merged"},
		About:    "JoinWithMergeCollection of three static parts: the value of a key is the (order-insensitive) merge of every part's object; index over the merged collection",
		Initial:  state{content{}, content{"n/k1": N("k1", "p1v1")}, content{}},
		Ops:      p8Ops(),
		New: func(stop chan struct{}, init state) *instance {
			var ins []krt.StaticCollection[Obj]
			var parts []krt.Collection[Obj]
			for i := range init {
				s := staticOf(stop, "part"+string(rune('0'+i)), init[i])
				ins = append(ins, s)
				parts = append(parts, s)
			}
			j := krt.JoinWithMergeCollection(parts, mergeVals, opts(stop, "merged")...)
			idx := krt.NewIndex(j, "byval", func(o Obj) []string { return []string{o.Val} })
			pr := probeOf(stop, j, "n/k1")
			return &instance{
				Inputs:  ins,
				Views:   []view{viewOf("merged", j), viewOf("probe", pr)},
				Lookups: []lookup{{Name: "merged.byval", Keys: lk, Fn: idx.Lookup}},
			}
		},
		Model: func(st state) map[string]content {
			out := mergedModel(st)
			return map[string]content{"merged": out, "probe": probeModel(out, "n/k1")}
		},
		LookupModel: func(st state) map[string]map[string][]string {
			out := mergedModel(st)
			m := map[string][]string{}
			for _, k := range lk {
				m[k] = sortedCanon(filterObjs(out, func(o Obj) bool { return o.Val == k }))
			}
			return map[string]map[string][]string{"merged.byval": m}
		},
	}
}

// ---- P9 nested join with merge: the set of inner collections changes

func progP9() *program {
	// input 0 = which inner collections are attached (key n/I<i>), inputs 1..3 = the inner collections
	att := func(i string) Obj { return N("I"+i, "") }
	return &program{
		Name:     "P9-nested-join-merge",
		Upstream: map[string]string{"probe": "nested"},
		About:    "NestedJoinWithMergeCollection over a static collection of collections: inner collections are attached, re-announced (update) and detached while their objects change, also while detached",
		Initial:  state{content{"n/I0": att("0")}, content{"n/a": N("a", "i0v1")}, content{"n/a": N("a", "i1v1"), "n/b": N("b", "i1")}, content{}},
		Ops: []op{
			put(0, "attach I1", att("1")),
			del(0, "detach I1", "n/I1"),
			put(0, "attach I0", att("0")),
			del(0, "detach I0", "n/I0"),
			put(0, "attach I2", att("2")),
			put(1, "I0 a=i0v1", N("a", "i0v1")),
			put(1, "I0 a=i0v2", N("a", "i0v2")),
			del(1, "I0 del a", "n/a"),
			put(2, "I1 a=i1v2", N("a", "i1v2")),
			del(2, "I1 del a", "n/a"),
			del(2, "I1 del b", "n/b"),
			put(3, "I2 b=i2", N("b", "i2")),
		},
		New: func(stop chan struct{}, init state) *instance {
			var inner []krt.StaticCollection[Obj]
			for i := 1; i < len(init); i++ {
				inner = append(inner, staticOf(stop, "I"+string(rune('0'+i-1)), init[i]))
			}
			var attached []krt.Collection[Obj]
			for _, k := range init[0].sortedKeys() {
				attached = append(attached, krt.Collection[Obj](inner[int(k[len(k)-1]-'0')]))
			}
			outer := krt.NewStaticCollection[krt.Collection[Obj]](nil, attached, krt.WithStop(stop), krt.WithName("outer"))
			var pmu sync.Mutex
			var panics []string
			// krt's own handlers on the outer collection run under recover, so that a crash is recorded, not fatal
			guarded := krt.VerifRecoverHandlers[krt.Collection[Obj]](outer, func(r any) {
				pmu.Lock()
				panics = append(panics, panicSite(r, string(debug.Stack())))
				pmu.Unlock()
			})
			j := krt.NestedJoinWithMergeCollection[Obj](guarded, mergeVals, opts(stop, "nested")...)
			pr := probeOf(stop, j, "n/a")
			inst := &instance{Views: []view{viewOf("nested", j), viewOf("probe", pr)}}
			inst.Panicked = func() []string {
				pmu.Lock()
				defer pmu.Unlock()
				out := panics
				panics = nil
				return out
			}
			inst.Apply = func(o op) error {
				if o.Coll == 0 {
					var name string
					if o.Kind == opPut {
						name = o.Obj.Name
					} else {
						name = o.Key[2:]
					}
					c := krt.Collection[Obj](inner[int(name[1]-'0')])
					if o.Kind == opPut {
						outer.UpdateObject(c)
					} else {
						outer.DeleteObject(krt.GetKey(c))
					}
					return nil
				}
				if o.Kind == opPut {
					inner[o.Coll-1].UpdateObject(o.Obj)
				} else {
					inner[o.Coll-1].DeleteObject(o.Key)
				}
				return nil
			}
			return inst
		},
		Model: func(st state) map[string]content {
			var parts []content
			for k := range st[0] {
				parts = append(parts, st[1+int(k[len(k)-1]-'0')])
			}
			out := mergedModel(parts)
			return map[string]content{"nested": out, "probe": probeModel(out, "n/a")}
		},
	}
}

// ---- P10 chain of three collections, FilterObjectName and a namespace index

func p10Model(xs, zs content) (c1, c2, c3 content) {
	c1, c2, c3 = content{}, content{}, content{}
	for k, o := range xs {
		if o.Labels["hide"] == "y" {
			continue
		}
		c1[k] = Obj{Named: o.Named, Val: "1:" + o.Val, Refs: o.Refs}
	}
	for k, o := range c1 {
		zv := "-"
		if len(o.Refs) > 0 {
			if z, ok := zs[o.Namespace+"/"+o.Refs[0]]; ok {
				zv = z.Val
			}
		}
		c2[k] = Obj{Named: o.Named, Val: o.Val + "/" + zv}
	}
	for k, o := range c2 {
		c3[k] = Obj{Named: o.Named, Val: o.Val + "#" + joinNV(filterObjs(c1, func(p Obj) bool { return p.Namespace == o.Namespace }))}
	}
	return
}

func progP10() *program {
	return &program{
		Name:     "P10-chain",
		Upstream: map[string]string{"c2": "c1", "c3": "c2"},
		About:    "chain X -> c1 -> c2 (FetchOne from Z by FilterObjectName{namespace,name}) -> c3 (Fetch of c1 through a namespace index): two namespaces, hidden objects, a diamond (c3 depends on c2 and on c1)",
		Initial:  state{content{"n/a": N("a", "v1").withRefs("z1")}, content{"n/z1": N("z1", "zv1")}},
		Ops: []op{
			put(0, "n/a->z1 v1", N("a", "v1").withRefs("z1")),
			put(0, "n/a->z2 v1", N("a", "v1").withRefs("z2")),
			put(0, "n/a hidden", N("a", "v1").withRefs("z1").withLabels("hide", "y")),
			put(0, "n/b->z1", N("b", "v1").withRefs("z1")),
			put(0, "m/a->z1", N("a", "v1").withRefs("z1").inNs("m")),
			del(0, "del n/a", "n/a"),
			del(0, "del n/b", "n/b"),
			put(1, "n/z1=zv1", N("z1", "zv1")),
			put(1, "n/z1=zv2", N("z1", "zv2")),
			put(1, "m/z1=zv1", N("z1", "zv1").inNs("m")),
			put(1, "n/z2=zv1", N("z2", "zv1")),
			del(1, "del n/z1", "n/z1"),
		},
		New: func(stop chan struct{}, init state) *instance {
			x := staticOf(stop, "X", init[0])
			z := staticOf(stop, "Z", init[1])
			c1 := krt.NewCollection(x, func(ctx krt.HandlerContext, o Obj) *Obj {
				if o.Labels["hide"] == "y" {
					return nil
				}
				return &Obj{Named: o.Named, Val: "1:" + o.Val, Refs: o.Refs}
			}, opts(stop, "c1")...)
			c2 := krt.NewCollection(c1, func(ctx krt.HandlerContext, o Obj) *Obj {
				zv := "-"
				if len(o.Refs) > 0 {
					if f := krt.FetchOne(ctx, krt.Collection[Obj](z), krt.FilterObjectName(types.NamespacedName{Namespace: o.Namespace, Name: o.Refs[0]})); f != nil {
						zv = f.Val
					}
				}
				return &Obj{Named: o.Named, Val: o.Val + "/" + zv}
			}, opts(stop, "c2")...)
			nsIdx := krt.NewNamespaceIndex(c1)
			c3 := krt.NewCollection(c2, func(ctx krt.HandlerContext, o Obj) *Obj {
				return &Obj{Named: o.Named, Val: o.Val + "#" + joinNV(nsIdx.Fetch(ctx, o.Namespace))}
			}, opts(stop, "c3")...)
			return &instance{
				Inputs:  []krt.StaticCollection[Obj]{x, z},
				Views:   []view{viewOf("c1", c1), viewOf("c2", c2), viewOf("c3", c3)},
				Lookups: []lookup{{Name: "c1.namespace", Keys: []string{"n", "m", "zz"}, Fn: nsIdx.Lookup}},
			}
		},
		Model: func(st state) map[string]content {
			c1, c2, c3 := p10Model(st[0], st[1])
			return map[string]content{"c1": c1, "c2": c2, "c3": c3}
		},
		LookupModel: func(st state) map[string]map[string][]string {
			c1, _, _ := p10Model(st[0], st[1])
			m := map[string][]string{}
			for _, ns := range []string{"n", "m", "zz"} {
				m[ns] = sortedCanon(filterObjs(c1, func(o Obj) bool { return o.Namespace == ns }))
			}
			return map[string]map[string][]string{"c1.namespace": m}
		},
	}
}
