// C14 generation: one istio environment per configuration (core.NewConfigGenTest: real config store,
// real ServiceEntry and memory registries, real PushContext), then for each proxy the four real xDS
// generators of pilot/pkg/xds (CDS, LDS, RDS for the names LDS references, EDS for every EDS cluster).
package c14

import (
	"fmt"
	"runtime"
	"sort"
	"strings"
	"time"

	cluster "github.com/envoyproxy/go-control-plane/envoy/config/cluster/v3"
	endpoint "github.com/envoyproxy/go-control-plane/envoy/config/endpoint/v3"
	listener "github.com/envoyproxy/go-control-plane/envoy/config/listener/v3"
	route "github.com/envoyproxy/go-control-plane/envoy/config/route/v3"
	"google.golang.org/protobuf/proto"

	"istio.io/istio/pilot/pkg/model"
	"istio.io/istio/pilot/pkg/networking/core"
	"istio.io/istio/pilot/pkg/xds"
	v3 "istio.io/istio/pilot/pkg/xds/v3"
	"istio.io/istio/pkg/config"
	"istio.io/istio/pkg/kube/krt"
	"istio.io/istio/pkg/util/sets"
)

// infraPanic marks a failure of the test helper itself (never a violation).
type infraPanic string

// caseT is the test.Failer handed to istio's helper for one environment; cleanups run when the
// case ends.
type caseT struct {
	name     string
	cleanups []func()
}

func (c *caseT) Fail()                      { panic(infraPanic("Fail in " + c.name)) }
func (c *caseT) FailNow()                   { panic(infraPanic("FailNow in " + c.name)) }
func (c *caseT) Fatal(args ...any)          { panic(infraPanic(fmt.Sprint(args...) + " in " + c.name)) }
func (c *caseT) Fatalf(f string, a ...any)  { panic(infraPanic(fmt.Sprintf(f, a...) + " in " + c.name)) }
func (c *caseT) Log(args ...any)            {}
func (c *caseT) Logf(f string, args ...any) {}
func (c *caseT) TempDir() string            { panic(infraPanic("TempDir")) }
func (c *caseT) Helper()                    {}
func (c *caseT) Cleanup(f func())           { c.cleanups = append(c.cleanups, f) }
func (c *caseT) Skip(args ...any)           { panic(infraPanic("Skip")) }
func (c *caseT) done() {
	for i := len(c.cleanups) - 1; i >= 0; i-- {
		c.cleanups[i]()
	}
	c.cleanups = nil
}

// proxySpec is one proxy identity of the enumeration.
type proxySpec struct {
	Name     string
	Type     model.NodeType
	NS       string
	IPs      []string
	Labels   map[string]string
	Meta     func(*model.NodeMetadata)
	Thorough bool
}

var proxies = []proxySpec{
	{Name: "sidecar", Type: model.SidecarProxy, NS: "default", IPs: []string{sidecarIP}, Labels: map[string]string{"app": "a", "version": "v1"}},
	{Name: "router", Type: model.Router, NS: "istio-system", IPs: []string{"10.9.9.1"}, Labels: map[string]string{"istio": "ingressgateway"}},
	{
		Name: "sidecar-none", Type: model.SidecarProxy, NS: "other", IPs: []string{"10.4.4.4"}, Labels: map[string]string{"app": "client"}, Thorough: true,
		Meta: func(m *model.NodeMetadata) { m.InterceptionMode = model.InterceptionNone },
	},
	{
		// a sidecar with an HTTP proxy port: LDS adds a listener whose route configuration ("http_proxy") merges the virtual hosts of all ports
		Name: "sidecar-http-proxy", Type: model.SidecarProxy, NS: "default", IPs: []string{"10.4.4.5"}, Labels: map[string]string{"app": "client"},
		Meta: func(m *model.NodeMetadata) { m.HTTPProxyPort = "15080" },
	},
	{Name: "router-v6", Type: model.Router, NS: "istio-system", IPs: []string{"2001:db8::2"}, Labels: map[string]string{"istio": "ingressgateway"}, Thorough: true},
	{Name: "waypoint", Type: model.Waypoint, NS: "default", IPs: []string{"10.8.8.8"}, Labels: map[string]string{"gateway.networking.k8s.io/gateway-name": "waypoint"}, Thorough: true},
}

// guarded runs f; a panic of the code under test becomes a finding, a failure of the helper is
// passed on as an infrastructure error.
func guarded(stage string, into *[]finding, f func()) (ok bool) {
	defer func() {
		r := recover()
		if r == nil {
			return
		}
		if ip, isInfra := r.(infraPanic); isInfra {
			panic("c14 infrastructure: " + string(ip))
		}
		site := panicSite()
		*into = append(*into, finding{"panic", stage, site, "", fmt.Sprintf("panic in %s: %v (at %s)", stage, r, site)})
		ok = false
	}()
	f()
	return true
}

// panicSite names the istio function in which the panic was raised.
func panicSite() string {
	pcs := make([]uintptr, 64)
	n := runtime.Callers(2, pcs)
	frames := runtime.CallersFrames(pcs[:n])
	afterPanic := false
	for {
		fr, more := frames.Next()
		if fr.Function == "runtime.gopanic" || strings.HasPrefix(fr.Function, "runtime.panic") || fr.Function == "runtime.sigpanic" || strings.HasPrefix(fr.Function, "runtime.goPanic") {
			afterPanic = true
		} else if afterPanic && !strings.HasPrefix(fr.Function, "runtime.") {
			fn := fr.Function
			if i := strings.LastIndex(fn, "/"); i >= 0 {
				fn = fn[i+1:]
			}
			return fn
		}
		if !more {
			return "unknown"
		}
	}
}

// generate builds the environment for the objects and the snapshot of every proxy. envCrash is set
// when the environment itself (config ingestion, PushContext initialisation) panics.
func generate(objs []*object, specs []proxySpec) (snaps []*snapshot, envCrash []finding) {
	name := "base"
	for _, o := range objs {
		name += "+" + o.Name
	}
	ct := &caseT{name: name}
	defer ct.done()
	// the helper registers every environment's collections in a process-global debug registry;
	// give each case its own so that memory stays bounded
	krt.GlobalDebugHandler = new(krt.DebugHandler)

	opts := core.TestOptions{}
	for _, o := range append(baseObjects(), objs...) {
		for _, c := range o.Configs {
			opts.Configs = append(opts.Configs, c.DeepCopy())
		}
		if o.Services != nil {
			svcs, insts := o.Services()
			opts.Services = append(opts.Services, svcs...)
			opts.Instances = append(opts.Instances, insts...)
		}
	}
	var cg *core.ConfigGenTest
	if !guarded("env", &envCrash, func() { cg = core.NewConfigGenTest(ct, opts) }) {
		return nil, envCrash
	}
	// one real XDS cache per environment, shared by its proxies as in istiod (EDS answers are served
	// from it; the config generator of the test helper itself runs without cache)
	cache := model.NewXdsCache()
	for _, ps := range specs {
		snaps = append(snaps, snapshotFor(cg, ps, cache))
	}
	return snaps, nil
}

func snapshotFor(cg *core.ConfigGenTest, ps proxySpec, cache model.XdsCache) *snapshot {
	s := &snapshot{Proxy: ps.Name, Stage: map[string]bool{}}
	node := &model.Proxy{
		Type: ps.Type, ID: ps.Name + "." + ps.NS, ConfigNamespace: ps.NS, IPAddresses: append([]string{}, ps.IPs...),
		Labels:   ps.Labels,
		Metadata: &model.NodeMetadata{Namespace: ps.NS, Labels: ps.Labels},
	}
	if ps.Meta != nil {
		ps.Meta(node.Metadata)
	}
	if !guarded("setup", &s.Crashes, func() { node = cg.SetupProxy(node) }) {
		return s
	}
	push := cg.PushContext()
	// Start is the cache token of what is generated (a zero Start disables caching); a constant, not the clock
	req := &model.PushRequest{Forced: true, Push: push, Reason: model.NewReasonStats(model.ProxyRequest), Start: t0.Add(time.Hour)}
	decode := func(rtype string, rs model.Resources, mk func() proto.Message, keep func(proto.Message)) {
		for _, r := range rs {
			m := mk()
			if err := r.GetResource().UnmarshalTo(m); err != nil {
				s.Crashes = append(s.Crashes, finding{"undecodable", rtype, "resource", r.GetName(), err.Error()})
				continue
			}
			keep(m)
		}
	}

	s.Stage["CDS"] = guarded("CDS", &s.Crashes, func() {
		rs, _, err := (&xds.CdsGenerator{ConfigGenerator: cg.ConfigGen}).Generate(node, &model.WatchedResource{TypeUrl: v3.ClusterType}, req)
		if err != nil {
			panic(infraPanic("CDS generator error: " + err.Error()))
		}
		decode("CDS", rs, func() proto.Message { return &cluster.Cluster{} }, func(m proto.Message) { s.Clusters = append(s.Clusters, m.(*cluster.Cluster)) })
	})
	s.Stage["LDS"] = guarded("LDS", &s.Crashes, func() {
		rs, _, err := (&xds.LdsGenerator{ConfigGenerator: cg.ConfigGen}).Generate(node, &model.WatchedResource{TypeUrl: v3.ListenerType}, req)
		if err != nil {
			panic(infraPanic("LDS generator error: " + err.Error()))
		}
		decode("LDS", rs, func() proto.Message { return &listener.Listener{} }, func(m proto.Message) { s.Listeners = append(s.Listeners, m.(*listener.Listener)) })
	})
	if s.Stage["LDS"] {
		var bad []finding
		s.RDSRequested, bad = rdsNamesOf(s.Listeners)
		s.Crashes = append(s.Crashes, bad...)
		s.Stage["RDS"] = guarded("RDS", &s.Crashes, func() {
			if len(s.RDSRequested) == 0 {
				return
			}
			w := &model.WatchedResource{TypeUrl: v3.RouteType, ResourceNames: sets.New(s.RDSRequested...)}
			rs, _, err := (&xds.RdsGenerator{ConfigGenerator: cg.ConfigGen}).Generate(node, w, req)
			if err != nil {
				panic(infraPanic("RDS generator error: " + err.Error()))
			}
			decode("RDS", rs, func() proto.Message { return &route.RouteConfiguration{} }, func(m proto.Message) { s.Routes = append(s.Routes, m.(*route.RouteConfiguration)) })
		})
		// The generator hands the names to BuildHTTPRoutes in map order, which differs from push to
		// push; the answer must be well-formed under every order. All permutations up to 4 names,
		// beyond that ascending, descending and every rotation (each ordered pair occurs both ways).
		if s.Stage["RDS"] && len(s.RDSRequested) > 1 {
			for _, order := range requestOrders(s.RDSRequested) {
				var one []*route.RouteConfiguration
				ok := guarded("RDS", &s.Crashes, func() {
					rs, _ := cg.ConfigGen.BuildHTTPRoutes(node, req, order)
					decode("RDS", rs, func() proto.Message { return &route.RouteConfiguration{} }, func(m proto.Message) { one = append(one, m.(*route.RouteConfiguration)) })
				})
				if ok {
					s.RouteOrders = append(s.RouteOrders, routeOrder{Order: order, Routes: one})
				}
			}
		}
	}
	if s.Stage["CDS"] {
		s.EDSRequested = edsNamesOf(s.Clusters)
		s.Stage["EDS"] = guarded("EDS", &s.Crashes, func() {
			if len(s.EDSRequested) == 0 {
				return
			}
			w := &model.WatchedResource{TypeUrl: v3.EndpointType, ResourceNames: sets.New(s.EDSRequested...)}
			// all names in one request, twice: the first answer fills the cache where it is cold, the
			// second is served from it
			gen := &xds.EdsGenerator{Cache: cache, EndpointIndex: cg.Env().EndpointIndex}
			for round, into := range []*[]*endpoint.ClusterLoadAssignment{&s.Endpoints, &s.EndpointsWarm} {
				rs, _, err := gen.Generate(node, w, req)
				if err != nil {
					panic(infraPanic("EDS generator error: " + err.Error()))
				}
				for _, r := range rs {
					s.EDSResourceNames[round] = append(s.EDSResourceNames[round], r.GetName())
				}
				decode("EDS", rs, func() proto.Message { return &endpoint.ClusterLoadAssignment{} }, func(m proto.Message) {
					*into = append(*into, m.(*endpoint.ClusterLoadAssignment))
				})
			}
		})
	}
	return s
}

// digest is a stable fingerprint of a snapshot (used for the vacuity rule and the determinism check).
func (s *snapshot) digest() string {
	var parts []string
	mo := proto.MarshalOptions{Deterministic: true}
	addAll := func(tag string, ms []proto.Message) {
		var one []string
		for _, m := range ms {
			b, _ := mo.Marshal(m)
			one = append(one, string(b))
		}
		sort.Strings(one)
		parts = append(parts, tag, strings.Join(one, "\x00"))
	}
	var ms []proto.Message
	for _, c := range s.Clusters {
		ms = append(ms, c)
	}
	addAll("C", ms)
	ms = nil
	for _, l := range s.Listeners {
		ms = append(ms, l)
	}
	addAll("L", ms)
	ms = nil
	for _, r := range s.Routes {
		ms = append(ms, r)
	}
	addAll("R", ms)
	ms = nil
	for _, e := range s.Endpoints {
		ms = append(ms, e)
	}
	addAll("E", ms)
	ms = nil
	for _, e := range s.EndpointsWarm {
		ms = append(ms, e)
	}
	addAll("Ew", ms)
	for _, c := range s.Crashes {
		parts = append(parts, c.sig())
	}
	return hashStrings(parts)
}

func (s *snapshot) shape() string {
	return fmt.Sprintf("%s C=%d L=%d R=%d/%d E=%d/%d", s.Proxy, len(s.Clusters), len(s.Listeners), len(s.Routes), len(s.RDSRequested), len(s.Endpoints), len(s.EDSRequested))
}

var _ = config.Config{}

// requestOrders enumerates the orders in which a set of names is handed to the generator.
func requestOrders(sorted []string) [][]string {
	n := len(sorted)
	var out [][]string
	if n <= 4 {
		perm := make([]int, n)
		for i := range perm {
			perm[i] = i
		}
		var rec func(k int)
		rec = func(k int) {
			if k == n {
				o := make([]string, n)
				for i, p := range perm {
					o[i] = sorted[p]
				}
				out = append(out, o)
				return
			}
			for i := k; i < n; i++ {
				perm[k], perm[i] = perm[i], perm[k]
				rec(k + 1)
				perm[k], perm[i] = perm[i], perm[k]
			}
		}
		rec(0)
		return out
	}
	for r := 0; r < n; r++ {
		o := append(append([]string{}, sorted[r:]...), sorted[:r]...)
		out = append(out, o)
	}
	desc := make([]string, n)
	for i, x := range sorted {
		desc[n-1-i] = x
	}
	return append(out, desc)
}
