// C14: every xDS snapshot sent to a proxy is closed and well-formed.
//
// Space: base configuration + every subset of size <= 2 of the collision alphabet (quick), plus every
// subset of size 3 (thorough; VERIF_C14_TRIPLES=core restricts the triples to the core objects),
// times the proxies. Per case the REAL istio code builds an environment and the four xDS answers per
// proxy (gen_test.go); the oracle of checks_test.go decides. A finding is attributed to the smallest
// sub-case that shows it (base, one object, two objects, three) and reported once there.
package c14

import (
	"crypto/sha256"
	"encoding/hex"
	"fmt"
	"os"
	"sort"
	"strings"
	"testing"

	"google.golang.org/protobuf/encoding/prototext"
	"google.golang.org/protobuf/proto"

	"istio.io/istio/pkg/log"
	"istio.io/istio/zz_verif/engine"
)

func TestMain(m *testing.M) {
	for _, s := range log.Scopes() {
		s.SetOutputLevel(log.NoneLevel)
	}
	os.Exit(m.Run())
}

func hashStrings(parts []string) string {
	h := sha256.New()
	for _, p := range parts {
		h.Write([]byte(p))
		h.Write([]byte{0})
	}
	return hex.EncodeToString(h.Sum(nil))[:20]
}

// dumpTo, when set (replay mode, VERIF_C14_DUMP=<dir>), receives every generated resource as text.
var dumpTo string

type replayC14 struct {
	Objects []string `json:"objects"`
	Proxy   string   `json:"proxy"`
}

// caseResult is what one case (a set of alphabet indexes) gives, per proxy.
type caseResult struct {
	sigs    map[string]map[string]finding // proxy -> sig -> first finding
	digests map[string]string             // proxy -> snapshot digest
	shapes  []string
	envSigs map[string]finding // crash of the environment itself (affects all proxies)
}

func (c *caseResult) has(proxy, sig string) bool {
	if _, ok := c.envSigs[sig]; ok {
		return true
	}
	_, ok := c.sigs[proxy][sig]
	return ok
}

type runner struct {
	res   *engine.Result
	specs []proxySpec
	cache map[string]*caseResult
	keep  func(idx []int) bool // which cases to keep in the cache
	nEnv  int64
	nSnap int64
	nRes  int64
}

func keyOf(idx []int) string { return fmt.Sprint(idx) }

func (r *runner) eval(idx []int) *caseResult {
	k := keyOf(idx)
	if c, ok := r.cache[k]; ok {
		return c
	}
	objs := make([]*object, len(idx))
	for i, x := range idx {
		objs[i] = alphabet[x]
	}
	c := &caseResult{sigs: map[string]map[string]finding{}, digests: map[string]string{}, envSigs: map[string]finding{}}
	snaps, envCrash := generate(objs, r.specs)
	r.nEnv++
	for _, f := range envCrash {
		c.envSigs[f.sig()] = f
	}
	for _, s := range snaps {
		r.nSnap++
		if dumpTo != "" {
			dump(dumpTo, idx, s)
		}
		r.nRes += int64(len(s.Clusters) + len(s.Listeners) + len(s.Routes) + len(s.Endpoints))
		r.res.Count("rds_answers_under_other_name_orders", int64(len(s.RouteOrders)))
		m := map[string]finding{}
		for _, f := range check(s) {
			if _, ok := m[f.sig()]; !ok {
				m[f.sig()] = f
			}
		}
		c.sigs[s.Proxy] = m
		c.digests[s.Proxy] = s.digest()
		c.shapes = append(c.shapes, fmt.Sprintf("%s v=%d", s.shape(), len(m)))
	}
	if r.keep == nil || r.keep(idx) {
		r.cache[k] = c
	}
	return c
}

// properSubsets of a sorted index set, smallest first.
func properSubsets(idx []int) [][]int {
	var out [][]int
	n := len(idx)
	for size := 0; size < n; size++ {
		for m := 0; m < 1<<n; m++ {
			var s []int
			for b := 0; b < n; b++ {
				if m&(1<<b) != 0 {
					s = append(s, idx[b])
				}
			}
			if len(s) == size {
				out = append(out, s)
			}
		}
	}
	return out
}

func shapesOf(idx []int) string {
	if len(idx) == 0 {
		return "base"
	}
	var s []string
	for _, x := range idx {
		s = append(s, alphabet[x].Shape)
	}
	sort.Strings(s)
	return strings.Join(s, "+")
}

func namesOf(idx []int) []string {
	out := []string{}
	for _, x := range idx {
		out = append(out, alphabet[x].Name)
	}
	return out
}

// report files the findings of a case that no proper sub-case shows (so each is reported from the
// smallest configuration that produces it). Sub-cases of size 2 are evaluated only when needed.
func (r *runner) report(idx []int, c *caseResult) (fresh int) {
	subs := properSubsets(idx)
	explained := func(proxy, sig string) bool {
		for _, s := range subs {
			if len(s) >= 2 {
				continue
			}
			if r.eval(s).has(proxy, sig) {
				return true
			}
		}
		for _, s := range subs {
			if len(s) < 2 {
				continue
			}
			if r.eval(s).has(proxy, sig) {
				return true
			}
		}
		return false
	}
	file := func(proxy string, f finding) {
		if explained(proxy, f.sig()) {
			r.res.Count("findings_already_shown_by_a_sub_case", 1)
			return
		}
		fresh++
		// key = (check, resource type, shapes of the objects of the smallest case showing it); the
		// crash site is added for panics; the finer class goes to the description and a counter
		key := f.Check + "|" + f.RType + "|" + shapesOf(idx)
		if f.Check == "panic" {
			key += "|" + f.Class
		}
		desc := fmt.Sprintf("[%s; objects %s] %s: %s %q: %s", proxy, strings.Join(namesOf(idx), " + "), f.Check, f.RType, f.Resource, f.Detail)
		r.res.Violate(key, desc, replayC14{Objects: namesOf(idx), Proxy: proxy})
		r.res.Count("finding "+key+" :: "+f.Class, 1)
	}
	for _, sig := range sortedKeys(c.envSigs) {
		file("*", c.envSigs[sig])
	}
	for _, ps := range r.specs {
		m := c.sigs[ps.Name]
		for _, sig := range sortedKeys(m) {
			file(ps.Name, m[sig])
		}
	}
	return fresh
}

func specsFor(thorough bool) []proxySpec {
	var out []proxySpec
	for _, p := range proxies {
		if !p.Thorough || thorough {
			out = append(out, p)
		}
	}
	return out
}

func TestC14(t *testing.T) {
	env := engine.GetEnv()
	res := engine.NewResult("C14", "snapshots")
	res.Rule = "base configuration (a platform service with the sidecar as endpoint, a ServiceEntry, a Gateway, a VirtualService) + every subset of size <= 2 of the collision alphabet (thorough: + every subset of size 3) x proxies (quick: sidecar, router; thorough: + sidecar with interception NONE, IPv6-only router, waypoint); per case one real environment (core.NewConfigGenTest, unvalidated objects as the CRD client delivers them) and per proxy the real CDS, LDS, RDS (for every route name LDS references, in one request; BuildHTTPRoutes again under every order of the names: all permutations up to 4 names, else rotations + descending) and EDS (for every EDS cluster, in one request, real XdsCache, cold and warm) generators with panics recovered; non-trivial = the snapshot of some proxy differs from the snapshot of the base alone and of every single object of the case alone (the objects interact or at least both matter)"
	defer res.Write(t, env)

	r := &runner{res: res, specs: specsFor(env.Thorough()), cache: map[string]*caseResult{}}
	r.keep = func(idx []int) bool { return len(idx) <= 2 }
	defer func() {
		res.Count("environments_built", r.nEnv)
		res.Count("snapshots_checked", r.nSnap)
		res.Count("resources_validated", r.nRes)
		un := []string{}
		for k, v := range unresolvedAny {
			un = append(un, fmt.Sprintf("%s x%d", k, v))
		}
		sort.Strings(un)
		res.Bounds["typed_config_types_not_resolved"] = un
	}()

	byName := map[string]int{}
	nRejected := 0
	var rejectedNames, mismatch []string
	for i, o := range alphabet {
		byName[o.Name] = i
		if o.Rejected {
			nRejected++
			rejectedNames = append(rejectedNames, o.Name)
		}
		if o.Rejected != (o.defect != "") {
			mismatch = append(mismatch, fmt.Sprintf("%s: admission rejects=%v (%s), declared defect=%q", o.Name, o.Rejected, o.RejectWhy, o.defect))
		}
	}
	if len(mismatch) > 0 {
		t.Fatalf("c14 infrastructure: alphabet validity labels disagree with istio's validation: %v", mismatch)
	}

	if env.Replay != "" {
		var rp replayC14
		if err := engine.ReadReplay(env.Replay, &rp); err != nil {
			t.Fatal(err)
		}
		var idx []int
		for _, n := range rp.Objects {
			i, ok := byName[n]
			if !ok {
				t.Fatalf("replay names unknown object %q", n)
			}
			idx = append(idx, i)
		}
		sort.Ints(idx)
		r.specs = nil
		for _, p := range proxies {
			if p.Name == rp.Proxy || rp.Proxy == "*" || rp.Proxy == "" {
				r.specs = append(r.specs, p)
			}
		}
		r.keep = nil
		if d := os.Getenv("VERIF_C14_DUMP"); d != "" {
			dumpTo = d
		}
		c := r.eval(idx)
		res.Evaluations++
		r.report(idx, c)
		for _, ps := range r.specs {
			for _, sig := range sortedKeys(c.sigs[ps.Name]) {
				f := c.sigs[ps.Name][sig]
				t.Logf("[%s] %s %s %q: %s", ps.Name, f.Check, f.RType, f.Resource, f.Detail)
			}
		}
		for _, f := range c.envSigs {
			t.Logf("[env] %s: %s", f.Check, f.Detail)
		}
		res.Outcome(strings.Join(c.shapes, "; "))
		return
	}

	n := len(alphabet)
	var core []int
	for i, o := range alphabet {
		if o.Core {
			core = append(core, i)
		}
	}
	var tripleSet []int
	for i := range alphabet {
		tripleSet = append(tripleSet, i)
	}
	if os.Getenv("VERIF_C14_TRIPLES") == "core" {
		tripleSet = core
	}
	res.Bounds["alphabet"] = n
	res.Bounds["alphabet_rejected_by_admission"] = rejectedNames
	res.Bounds["core"] = len(core)
	res.Bounds["proxies"] = len(r.specs)

	// the case list: {}, singles, pairs, (thorough) triples
	var cases [][]int
	cases = append(cases, []int{})
	for i := 0; i < n; i++ {
		cases = append(cases, []int{i})
	}
	for i := 0; i < n; i++ {
		for j := i + 1; j < n; j++ {
			cases = append(cases, []int{i, j})
		}
	}
	pairsEnd := len(cases)
	if env.Thorough() {
		for a := 0; a < len(tripleSet); a++ {
			for b := a + 1; b < len(tripleSet); b++ {
				for c := b + 1; c < len(tripleSet); c++ {
					cases = append(cases, []int{tripleSet[a], tripleSet[b], tripleSet[c]})
				}
			}
		}
	}
	res.Bounds["cases_total"] = len(cases)
	res.Bounds["cases_size_le_2"] = pairsEnd
	res.Bounds["cases_size_3"] = len(cases) - pairsEnd

	for ord, idx := range cases {
		if !env.Mine(int64(ord)) {
			continue
		}
		if env.Expired() {
			res.Cap(fmt.Sprintf("deadline at case %d/%d", ord, len(cases)))
			break
		}
		res.Evaluations++
		c := r.eval(idx)
		fresh := r.report(idx, c)
		res.Outcome(strings.Join(c.shapes, "; "))

		// vacuity rule
		if len(idx) >= 1 {
			differs := false
			for _, ps := range r.specs {
				d := c.digests[ps.Name]
				same := d == r.eval([]int{}).digests[ps.Name]
				for _, x := range idx {
					if len(idx) > 1 && d == r.eval([]int{x}).digests[ps.Name] {
						same = true
					}
				}
				if !same {
					differs = true
				}
			}
			if differs {
				res.NontrivialCase(keyOf(idx))
			}
		}
		// determinism: the same case again must give the same snapshots
		if res.Evaluations%97 == 1 {
			delete(r.cache, keyOf(idx))
			again := r.eval(idx)
			for _, ps := range r.specs {
				if again.digests[ps.Name] != c.digests[ps.Name] {
					res.Infra = fmt.Sprintf("case %v proxy %s: two generations of the same case differ", namesOf(idx), ps.Name)
				}
			}
			res.Count("determinism_rechecks", 1)
		}
		if res.Evaluations%41 == 3 || (fresh > 0 && len(res.Samples) < 3) {
			res.Sample(map[string]any{"objects": namesOf(idx), "snapshots": c.shapes, "new_findings": fresh})
		}
	}
}

func dump(dir string, idx []int, s *snapshot) {
	name := strings.Join(namesOf(idx), "+")
	if name == "" {
		name = "base"
	}
	var b strings.Builder
	mo := prototext.MarshalOptions{Multiline: true, Indent: " "}
	w := func(tag string, m proto.Message) { fmt.Fprintf(&b, "==== %s\n%s\n", tag, mo.Format(m)) }
	for _, c := range s.Clusters {
		w("CDS "+c.GetName(), c)
	}
	for _, l := range s.Listeners {
		w("LDS "+l.GetName(), l)
	}
	for _, x := range s.Routes {
		w("RDS "+x.GetName(), x)
	}
	for _, e := range s.Endpoints {
		w("EDS "+e.GetClusterName(), e)
	}
	fmt.Fprintf(&b, "==== requested RDS %v\n==== requested EDS %v\n==== crashes %v\n", s.RDSRequested, s.EDSRequested, s.Crashes)
	_ = os.MkdirAll(dir, 0o755)
	_ = os.WriteFile(dir+"/"+name+"."+s.Proxy+".txt", []byte(b.String()), 0o644)
}
