// C14 oracle: what a proxy refuses to load, written from the xDS API documentation (Appendix: the
// comments of the envoy api protos) and the generated protoc-gen-validate rules of go-control-plane.
// Nothing here looks at how istio builds the resources.
package c14

import (
	"fmt"
	"math"
	"net/netip"
	"regexp"
	"sort"
	"strings"

	cluster "github.com/envoyproxy/go-control-plane/envoy/config/cluster/v3"
	corev3 "github.com/envoyproxy/go-control-plane/envoy/config/core/v3"
	endpoint "github.com/envoyproxy/go-control-plane/envoy/config/endpoint/v3"
	listener "github.com/envoyproxy/go-control-plane/envoy/config/listener/v3"
	route "github.com/envoyproxy/go-control-plane/envoy/config/route/v3"
	hcm "github.com/envoyproxy/go-control-plane/envoy/extensions/filters/network/http_connection_manager/v3"
	tcpproxy "github.com/envoyproxy/go-control-plane/envoy/extensions/filters/network/tcp_proxy/v3"
	matcherv3 "github.com/envoyproxy/go-control-plane/envoy/type/matcher/v3"
	"google.golang.org/protobuf/proto"
	"google.golang.org/protobuf/reflect/protoreflect"
	"google.golang.org/protobuf/reflect/protoregistry"
	"google.golang.org/protobuf/types/known/anypb"

	// every envoy extension type istio knows, so that typed_config payloads resolve
	_ "istio.io/istio/pkg/config/xds"
)

// finding is one thing a proxy would refuse (or a crash) in one snapshot.
type finding struct {
	Check    string // which rule of the property
	RType    string // CDS LDS RDS EDS (or setup/env for crashes before generation)
	Class    string // detail class without concrete names: PGV field path + reason, crash site, ...
	Resource string // concrete resource name
	Detail   string // concrete description
}

func (f finding) sig() string { return f.Check + "|" + f.RType + "|" + f.Class }

// snapshot is everything one proxy is sent for one configuration: the answer to a wildcard CDS and
// LDS request, to an RDS request for every route name the listeners reference and to an EDS request
// for every EDS-type cluster.
type snapshot struct {
	Proxy        string
	Clusters     []*cluster.Cluster
	Listeners    []*listener.Listener
	RDSRequested []string
	Routes       []*route.RouteConfiguration
	EDSRequested []string
	Endpoints    []*endpoint.ClusterLoadAssignment
	// EndpointsWarm is the answer to the same EDS request repeated (served from the XDS cache);
	// EDSResourceNames are the names on the resource wrappers of the two answers
	EndpointsWarm    []*endpoint.ClusterLoadAssignment
	EDSResourceNames [2][]string
	// RouteOrders: the answers of the route generator to the same set of names handed over in other orders
	RouteOrders []routeOrder
	Crashes     []finding // panics and undecodable resources seen while generating
	Stage       map[string]bool
}

type routeOrder struct {
	Order  []string
	Routes []*route.RouteConfiguration
}

// rdsNamesOf lists the route configuration names a listener set subscribes to: every
// HttpConnectionManager (in any filter chain, default filter chain included) with an rds specifier.
func rdsNamesOf(ls []*listener.Listener) ([]string, []finding) {
	seen := map[string]bool{}
	var bad []finding
	for _, l := range ls {
		chains := append([]*listener.FilterChain{}, l.GetFilterChains()...)
		if l.GetDefaultFilterChain() != nil {
			chains = append(chains, l.GetDefaultFilterChain())
		}
		for _, fc := range chains {
			for _, f := range fc.GetFilters() {
				tc := f.GetTypedConfig()
				if tc == nil || !strings.HasSuffix(tc.GetTypeUrl(), "/envoy.extensions.filters.network.http_connection_manager.v3.HttpConnectionManager") {
					continue
				}
				h := &hcm.HttpConnectionManager{}
				if err := tc.UnmarshalTo(h); err != nil {
					bad = append(bad, finding{"undecodable", "LDS", "HttpConnectionManager", l.GetName(), err.Error()})
					continue
				}
				if r := h.GetRds(); r != nil {
					seen[r.GetRouteConfigName()] = true
				}
			}
		}
	}
	out := make([]string, 0, len(seen))
	for n := range seen {
		out = append(out, n)
	}
	sort.Strings(out)
	return out, bad
}

// edsNamesOf lists the endpoint resources a cluster set subscribes to: for a cluster of type EDS the
// eds_cluster_config.service_name, or the cluster name when that is empty.
func edsNamesOf(cs []*cluster.Cluster) []string {
	seen := map[string]bool{}
	for _, c := range cs {
		if _, isType := c.GetClusterDiscoveryType().(*cluster.Cluster_Type); !isType || c.GetType() != cluster.Cluster_EDS {
			continue
		}
		n := c.GetEdsClusterConfig().GetServiceName()
		if n == "" {
			n = c.GetName()
		}
		seen[n] = true
	}
	out := make([]string, 0, len(seen))
	for n := range seen {
		out = append(out, n)
	}
	sort.Strings(out)
	return out
}

// check applies every rule of the property to one snapshot.
func check(s *snapshot) []finding {
	out := append([]finding{}, s.Crashes...)
	add := func(check, rtype, class, resource, detail string) {
		out = append(out, finding{check, rtype, class, resource, detail})
	}

	// 1. names unique within a type
	dupNames := func(rtype string, names []string) {
		seen := map[string]int{}
		for _, n := range names {
			seen[n]++
		}
		for _, n := range sortedKeys(seen) {
			if seen[n] > 1 {
				add("duplicate-name", rtype, nameClass(rtype, n), n, fmt.Sprintf("%d %s resources named %q in one response", seen[n], rtype, n))
			}
		}
	}
	var names []string
	for _, c := range s.Clusters {
		names = append(names, c.GetName())
	}
	dupNames("CDS", names)
	names = nil
	for _, l := range s.Listeners {
		names = append(names, l.GetName())
	}
	dupNames("LDS", names)
	names = nil
	for _, r := range s.Routes {
		names = append(names, r.GetName())
	}
	dupNames("RDS", names)
	for round, eps := range [][]*endpoint.ClusterLoadAssignment{s.Endpoints, s.EndpointsWarm} {
		names = nil
		for _, e := range eps {
			names = append(names, e.GetClusterName())
		}
		dupNames("EDS", names)
		dupNames("EDS", s.EDSResourceNames[round])
	}

	// 2. closure: what is referenced is produced when requested
	if s.Stage["RDS"] {
		have := map[string]bool{}
		for _, r := range s.Routes {
			have[r.GetName()] = true
		}
		for _, n := range s.RDSRequested {
			if !have[n] {
				add("rds-not-produced", "RDS", nameClass("RDS", n), n, fmt.Sprintf("a listener references route configuration %q; the RDS answer to a request for it does not contain it", n))
			}
		}
	}
	if s.Stage["EDS"] {
		for round, eps := range [][]*endpoint.ClusterLoadAssignment{s.Endpoints, s.EndpointsWarm} {
			have := map[string]bool{}
			for _, e := range eps {
				have[e.GetClusterName()] = true
			}
			for _, n := range s.EDSRequested {
				if !have[n] {
					add("eds-not-produced", "EDS", nameClass("EDS", n), n,
						fmt.Sprintf("EDS cluster references load assignment %q; answer #%d to a request for all referenced names does not contain it", n, round+1))
				}
			}
		}
	}

	// 3. virtual host domains unique within a route configuration (Envoy lower-cases domains)
	checkRouteConfig := func(rtype string, rc *route.RouteConfiguration, where string) {
		seen := map[string]string{}
		for _, vh := range rc.GetVirtualHosts() {
			for _, d := range vh.GetDomains() {
				k := strings.ToLower(d)
				if prev, ok := seen[k]; ok {
					cls := "exact"
					if prev != d {
						cls = "case-insensitive"
					}
					if strings.Contains(d, "*") {
						cls += "-wildcard"
					}
					add("duplicate-domain", rtype, cls, where, fmt.Sprintf("domain %q of virtual host %q collides with %q", d, vh.GetName(), prev))
				} else {
					seen[k] = d
				}
			}
			for _, r := range vh.GetRoutes() {
				checkRouteWeights(rtype, where, vh.GetName(), r, add)
			}
		}
	}
	for _, rc := range s.Routes {
		checkRouteConfig("RDS", rc, rc.GetName())
	}
	// the same request under other orders of the names: names and closure always; the full set of
	// route checks for every route configuration that differs from the first answer
	if len(s.RouteOrders) > 0 {
		first := map[string][]byte{}
		mo := proto.MarshalOptions{Deterministic: true}
		for _, rc := range s.Routes {
			first[rc.GetName()], _ = mo.Marshal(rc)
		}
		for _, ro := range s.RouteOrders {
			names = nil
			have := map[string]bool{}
			for _, rc := range ro.Routes {
				names = append(names, rc.GetName())
				have[rc.GetName()] = true
			}
			dupNames("RDS", names)
			for _, n := range s.RDSRequested {
				if !have[n] {
					add("rds-not-produced", "RDS", nameClass("RDS", n), n, fmt.Sprintf("route configuration %q is missing from the answer to a request naming %v in this order", n, ro.Order))
				}
			}
			for _, rc := range ro.Routes {
				b, _ := mo.Marshal(rc)
				if prev, ok := first[rc.GetName()]; ok && string(prev) == string(b) {
					continue
				}
				where := fmt.Sprintf("%s (names requested in the order %v)", rc.GetName(), ro.Order)
				checkRouteConfig("RDS", rc, where)
				pgv("RDS", where, rc, add)
			}
		}
	}

	// 4. listeners: filter chain matches, inline route configurations, tcp weights
	for _, l := range s.Listeners {
		checkFilterChains(l, add)
		chains := append([]*listener.FilterChain{}, l.GetFilterChains()...)
		if l.GetDefaultFilterChain() != nil {
			chains = append(chains, l.GetDefaultFilterChain())
		}
		for _, fc := range chains {
			for _, f := range fc.GetFilters() {
				tc := f.GetTypedConfig()
				switch {
				case tc == nil:
				case strings.HasSuffix(tc.GetTypeUrl(), "/envoy.extensions.filters.network.http_connection_manager.v3.HttpConnectionManager"):
					h := &hcm.HttpConnectionManager{}
					if tc.UnmarshalTo(h) == nil && h.GetRouteConfig() != nil {
						checkRouteConfig("LDS", h.GetRouteConfig(), l.GetName()+"/"+h.GetRouteConfig().GetName())
					}
				case strings.HasSuffix(tc.GetTypeUrl(), "/envoy.extensions.filters.network.tcp_proxy.v3.TcpProxy"):
					tp := &tcpproxy.TcpProxy{}
					if tc.UnmarshalTo(tp) == nil && tp.GetWeightedClusters() != nil {
						var sum uint64
						for _, w := range tp.GetWeightedClusters().GetClusters() {
							sum += uint64(w.GetWeight())
						}
						if sum == 0 || sum > math.MaxUint32 {
							add("weight-sum", "LDS", "tcp_proxy.weighted_clusters", l.GetName(), fmt.Sprintf("tcp_proxy weighted clusters sum to %d", sum))
						}
					}
				}
			}
		}
	}

	// 5. endpoints: weights
	for _, e := range s.Endpoints {
		var total, locTotal uint64
		for _, le := range e.GetEndpoints() {
			if w := le.GetLoadBalancingWeight(); w != nil {
				locTotal += uint64(w.GetValue())
			}
			for _, ep := range le.GetLbEndpoints() {
				if w := ep.GetLoadBalancingWeight(); w != nil {
					total += uint64(w.GetValue())
				} else {
					total++
				}
			}
		}
		if total > math.MaxUint32 {
			add("weight-sum", "EDS", "lb_endpoints", e.GetClusterName(), fmt.Sprintf("endpoint weights sum to %d > MaxUint32", total))
		}
		if locTotal > math.MaxUint32 {
			add("weight-sum", "EDS", "localities", e.GetClusterName(), fmt.Sprintf("locality weights sum to %d > MaxUint32", locTotal))
		}
	}

	// 6. the API's own validation rules on every message, typed_config payloads included
	for _, c := range s.Clusters {
		pgv("CDS", c.GetName(), c, add)
	}
	for _, l := range s.Listeners {
		pgv("LDS", l.GetName(), l, add)
	}
	for _, r := range s.Routes {
		pgv("RDS", r.GetName(), r, add)
	}
	for _, e := range s.Endpoints {
		pgv("EDS", e.GetClusterName(), e, add)
	}
	for _, e := range s.EndpointsWarm {
		pgv("EDS", e.GetClusterName(), e, add)
	}
	return out
}

// checkRouteWeights: weighted_clusters of a route must sum to a positive number that fits uint32
// (route_components.proto: "The sum of weights across all entries in the clusters array must be
// greater than 0"; Envoy refuses a total above the uint32 maximum).
func checkRouteWeights(rtype, where, vhost string, r *route.Route, add func(check, rtype, class, resource, detail string)) {
	actions := []*route.RouteAction{r.GetRoute()}
	for _, a := range actions {
		wc := a.GetWeightedClusters()
		if wc == nil || len(wc.GetClusters()) == 0 {
			continue // an empty list is already a violation of the API's validation rules (min_items)
		}
		var sum uint64
		for _, c := range wc.GetClusters() {
			sum += uint64(c.GetWeight().GetValue())
		}
		switch {
		case sum == 0:
			add("weight-sum", rtype, "weighted_clusters.zero", where, fmt.Sprintf("virtual host %q route %q: weighted clusters sum to 0", vhost, r.GetName()))
		case sum > math.MaxUint32:
			add("weight-sum", rtype, "weighted_clusters.overflow", where, fmt.Sprintf("virtual host %q route %q: weighted clusters sum to %d > MaxUint32", vhost, r.GetName(), sum))
		}
	}
}

// checkFilterChains: listener_components.proto FilterChainMatch: "For criteria that allow ranges or
// wildcards, the most specific value ... wins"; the listener is rejected when two filter chains carry
// the same matching rules, which Envoy decides on the expanded criteria: two chains collide when one
// combination (destination port, destination prefix, server name, transport protocol, application
// protocol, directly connected source prefix, source type, source prefix, source port) belongs to both.
func checkFilterChains(l *listener.Listener, add func(check, rtype, class, resource, detail string)) {
	if l.GetFilterChainMatcher() != nil {
		return // matching is by the matcher tree, filter_chain_match is unused
	}
	owner := map[string]int{}
	reported := map[[2]int]bool{}
	for i, fc := range l.GetFilterChains() {
		m := fc.GetFilterChainMatch()
		for _, sn := range m.GetServerNames() {
			if strings.Contains(sn, "*") && !strings.HasPrefix(sn, "*.") {
				add("server-name-partial-wildcard", "LDS", "server_names", l.GetName(), fmt.Sprintf("filter chain %q matches server name %q: partial wildcards are invalid", fc.GetName(), sn))
			}
		}
		for _, leaf := range expandMatch(m) {
			if j, ok := owner[leaf]; ok && j == i {
				// a repeated value inside one match puts the chain twice on the same branch, which
				// Envoy reports as overlapping rules as well
				if !reported[[2]int{i, i}] {
					reported[[2]int{i, i}] = true
					add("duplicate-filter-chain-match", "LDS", "repeated-value", l.GetName(),
						fmt.Sprintf("filter chain #%d %q lists the combination {%s} twice", i, fc.GetName(), leaf))
				}
			} else if ok {
				if !reported[[2]int{j, i}] {
					reported[[2]int{j, i}] = true
					cls := "overlapping"
					if proto.Equal(l.GetFilterChains()[j].GetFilterChainMatch(), m) || (isEmptyMatch(l.GetFilterChains()[j].GetFilterChainMatch()) && isEmptyMatch(m)) {
						cls = "identical"
					}
					add("duplicate-filter-chain-match", "LDS", cls, l.GetName(),
						fmt.Sprintf("filter chains #%d %q and #%d %q both match {%s}", j, l.GetFilterChains()[j].GetName(), i, fc.GetName(), leaf))
				}
			} else {
				owner[leaf] = i
			}
		}
	}
	if len(l.GetFilterChains()) == 0 && l.GetDefaultFilterChain() == nil && l.GetUdpListenerConfig() == nil {
		add("no-filter-chain", "LDS", "listener", l.GetName(), "listener without any filter chain")
	}
}

func isEmptyMatch(m *listener.FilterChainMatch) bool {
	return m == nil || proto.Equal(m, &listener.FilterChainMatch{})
}

func expandMatch(m *listener.FilterChainMatch) []string {
	orEmpty := func(a []string) []string {
		if len(a) == 0 {
			return []string{""}
		}
		return a
	}
	cidrs := func(in []*corev3.CidrRange) []string {
		var out []string
		for _, c := range in {
			s := fmt.Sprintf("%s/%d", c.GetAddressPrefix(), c.GetPrefixLen().GetValue())
			if a, err := netip.ParseAddr(c.GetAddressPrefix()); err == nil {
				if p, err := a.Prefix(int(c.GetPrefixLen().GetValue())); err == nil {
					s = p.String()
				}
			}
			out = append(out, s)
		}
		return orEmpty(out)
	}
	var ports []string
	for _, p := range m.GetSourcePorts() {
		ports = append(ports, fmt.Sprint(p))
	}
	var leaves []string
	for _, d := range cidrs(m.GetPrefixRanges()) {
		for _, sn := range orEmpty(m.GetServerNames()) {
			for _, ap := range orEmpty(m.GetApplicationProtocols()) {
				for _, ds := range cidrs(m.GetDirectSourcePrefixRanges()) {
					for _, sp := range cidrs(m.GetSourcePrefixRanges()) {
						for _, p := range orEmpty(ports) {
							leaves = append(leaves, fmt.Sprintf("port=%d dst=%s sni=%s transport=%s alpn=%s direct=%s srctype=%s src=%s srcport=%s",
								m.GetDestinationPort().GetValue(), d, sn, m.GetTransportProtocol(), ap, ds, m.GetSourceType(), sp, p))
						}
					}
				}
			}
		}
	}
	return leaves
}

// ---- protoc-gen-validate, recursing into Any ----

type pgvMulti interface{ AllErrors() []error }
type pgvErr interface {
	Field() string
	Reason() string
	Cause() error
	ErrorName() string
}

var indexRE = regexp.MustCompile(`\[[^\]]*\]`)

// flatten turns a (multi) validation error into leaf "Message.Field: reason" strings.
func flatten(err error, prefix string, out *[][2]string) {
	if err == nil {
		return
	}
	if m, ok := err.(pgvMulti); ok {
		for _, e := range m.AllErrors() {
			flatten(e, prefix, out)
		}
		return
	}
	if e, ok := err.(pgvErr); ok {
		p := prefix + strings.TrimSuffix(e.ErrorName(), "ValidationError") + "." + e.Field()
		if e.Cause() != nil {
			if _, isV := e.Cause().(pgvErr); isV {
				flatten(e.Cause(), p+" > ", out)
				return
			}
			if _, isM := e.Cause().(pgvMulti); isM {
				flatten(e.Cause(), p+" > ", out)
				return
			}
			*out = append(*out, [2]string{p, e.Reason() + " (" + e.Cause().Error() + ")"})
			return
		}
		*out = append(*out, [2]string{p, e.Reason()})
		return
	}
	*out = append(*out, [2]string{prefix, err.Error()})
}

var unresolvedAny = map[string]int64{}

func pgv(rtype, resource string, m proto.Message, add func(check, rtype, class, resource, detail string)) {
	var leaves [][2]string
	validateDeep(m, "", &leaves, 0)
	// envoy.type.matcher.v3.RegexMatcher.regex: "The regex syntax is documented at
	// https://github.com/google/re2/wiki/Syntax": a proxy refuses a pattern RE2 cannot compile
	// (Go's regexp implements the same syntax)
	for _, bad := range badRegexes(m.ProtoReflect(), 0) {
		add("invalid-regex", rtype, "RegexMatcher", resource, bad)
	}
	seen := map[string]bool{}
	for _, l := range leaves {
		cls := indexRE.ReplaceAllString(l[0], "[]") + ": " + l[1]
		if seen[cls] {
			continue
		}
		seen[cls] = true
		add("pgv", rtype, cls, resource, l[0]+": "+l[1])
	}
}

func validateDeep(m proto.Message, prefix string, out *[][2]string, depth int) {
	if depth > 12 {
		return
	}
	if v, ok := m.(interface{ ValidateAll() error }); ok {
		flatten(v.ValidateAll(), prefix, out)
	}
	walkAny(m.ProtoReflect(), func(a *anypb.Any) {
		if a.GetTypeUrl() == "" && len(a.GetValue()) == 0 {
			return
		}
		name := a.GetTypeUrl()
		if i := strings.LastIndex(name, "/"); i >= 0 {
			name = name[i+1:]
		}
		mt, err := protoregistry.GlobalTypes.FindMessageByName(protoreflect.FullName(name))
		if err != nil {
			unresolvedAny[name]++
			return
		}
		inner := mt.New().Interface()
		if err := proto.Unmarshal(a.GetValue(), inner); err != nil {
			*out = append(*out, [2]string{prefix + "Any<" + name + ">", "payload does not decode: " + err.Error()})
			return
		}
		validateDeep(inner, prefix+"Any<"+name+"> > ", out, depth+1)
	})
}

var anyName = (&anypb.Any{}).ProtoReflect().Descriptor().FullName()

func walkAny(m protoreflect.Message, f func(*anypb.Any)) {
	m.Range(func(fd protoreflect.FieldDescriptor, v protoreflect.Value) bool {
		visit := func(mv protoreflect.Message) {
			if mv.Descriptor().FullName() == anyName {
				if a, ok := mv.Interface().(*anypb.Any); ok {
					f(a)
				}
				return
			}
			walkAny(mv, f)
		}
		switch {
		case fd.IsMap():
			if fd.MapValue().Message() != nil {
				v.Map().Range(func(_ protoreflect.MapKey, mv protoreflect.Value) bool {
					visit(mv.Message())
					return true
				})
			}
		case fd.IsList():
			if fd.Message() != nil {
				l := v.List()
				for i := 0; i < l.Len(); i++ {
					visit(l.Get(i).Message())
				}
			}
		case fd.Message() != nil:
			visit(v.Message())
		}
		return true
	})
}

// nameClass reduces a resource name to its shape so that one cause gives one key.
func nameClass(rtype, n string) string {
	switch {
	case strings.HasPrefix(n, "outbound|"), strings.HasPrefix(n, "inbound|"), strings.HasPrefix(n, "outbound_."):
		p := strings.Split(n, "|")
		if len(p) == 4 {
			sub := ""
			if p[2] != "" {
				sub = "subset"
			}
			return p[0] + "|port|" + sub + "|host"
		}
		return "outbound_.sni-dnat"
	case n == "":
		return "empty-name"
	}
	if rtype == "LDS" {
		if strings.Contains(n, "_") {
			return "ip_port"
		}
		return "named"
	}
	if rtype == "RDS" {
		if strings.HasPrefix(n, "http.") || strings.HasPrefix(n, "https.") {
			return "gateway-route"
		}
		if strings.Contains(n, ":") {
			return "host:port"
		}
		if _, err := fmt.Sscanf(n, "%d", new(int)); err == nil {
			return "port"
		}
	}
	return "other"
}

func sortedKeys[V any](m map[string]V) []string {
	out := make([]string, 0, len(m))
	for k := range m {
		out = append(out, k)
	}
	sort.Strings(out)
	return out
}

var regexMatcherName = (&matcherv3.RegexMatcher{}).ProtoReflect().Descriptor().FullName()

func badRegexes(m protoreflect.Message, depth int) []string {
	var out []string
	if depth > 40 {
		return nil
	}
	if m.Descriptor().FullName() == regexMatcherName {
		rx := m.Interface().(*matcherv3.RegexMatcher).GetRegex()
		if _, err := regexp.Compile(rx); err != nil {
			out = append(out, fmt.Sprintf("regex %q does not compile: %v", rx, err))
		}
		return out
	}
	if m.Descriptor().FullName() == anyName {
		a := m.Interface().(*anypb.Any)
		name := a.GetTypeUrl()
		if i := strings.LastIndex(name, "/"); i >= 0 {
			name = name[i+1:]
		}
		if mt, err := protoregistry.GlobalTypes.FindMessageByName(protoreflect.FullName(name)); err == nil {
			inner := mt.New().Interface()
			if proto.Unmarshal(a.GetValue(), inner) == nil {
				out = append(out, badRegexes(inner.ProtoReflect(), depth+1)...)
			}
		}
		return out
	}
	m.Range(func(fd protoreflect.FieldDescriptor, v protoreflect.Value) bool {
		switch {
		case fd.IsMap():
			if fd.MapValue().Message() != nil {
				v.Map().Range(func(_ protoreflect.MapKey, mv protoreflect.Value) bool {
					out = append(out, badRegexes(mv.Message(), depth+1)...)
					return true
				})
			}
		case fd.IsList():
			if fd.Message() != nil {
				for i := 0; i < v.List().Len(); i++ {
					out = append(out, badRegexes(v.List().Get(i).Message(), depth+1)...)
				}
			}
		case fd.Message() != nil:
			out = append(out, badRegexes(v.Message(), depth+1)...)
		}
		return true
	})
	return out
}
