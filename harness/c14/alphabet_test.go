// C14 collision alphabet. Every object is something the control plane can be handed: an Istio config
// object as the CRD client delivers it (decoded, NOT validated: validation is an admission webhook
// that may be absent, bypassed or older than the object) or a service of a platform registry. The
// base configuration is part of every case, so a "pair" is really base + two objects.
package c14

import (
	"bytes"
	"fmt"
	"io"
	"strings"
	"time"

	kubeyaml "k8s.io/apimachinery/pkg/util/yaml"

	"istio.io/istio/pilot/pkg/config/kube/crd"
	"istio.io/istio/pilot/pkg/model"
	"istio.io/istio/pkg/config"
	"istio.io/istio/pkg/config/host"
	"istio.io/istio/pkg/config/protocol"
	"istio.io/istio/pkg/config/schema/collections"
	"istio.io/istio/pkg/config/schema/resource"
)

const sidecarIP = "10.1.1.1"

var t0 = time.Date(2024, 1, 1, 0, 0, 0, 0, time.UTC)

// object is one letter of the alphabet.
type object struct {
	Name      string
	Kind      string // SE K8S VS GW DR SC EF
	Shape     string // Kind for objects admission accepts, Kind!defect for objects it rejects
	Core      bool   // member of the core used for triples
	Rejected  bool   // measured: istio's own validation rejects at least one of the configs
	RejectWhy string
	Configs   []config.Config
	Services  func() ([]*model.Service, []*model.ServiceInstance)
	yaml      string
	defect    string
}

// parse decodes YAML documents the way the CRD client does (no validation).
func parse(y string, ts time.Time) ([]config.Config, string, error) {
	var out []config.Config
	rejected := ""
	dec := kubeyaml.NewYAMLOrJSONDecoder(bytes.NewReader([]byte(y)), 512*1024)
	for {
		obj := crd.IstioKind{}
		err := dec.Decode(&obj)
		if err == io.EOF {
			break
		}
		if err != nil {
			return nil, "", err
		}
		if obj.Kind == "" {
			continue
		}
		gvk := obj.GroupVersionKind()
		s, ok := collections.PilotGatewayAPI().FindByGroupVersionAliasesKind(resource.FromKubernetesGVK(&gvk))
		if !ok {
			return nil, "", fmt.Errorf("unknown kind %v", gvk)
		}
		cfg, err := crd.ConvertObject(s, &obj, "")
		if err != nil {
			return nil, "", fmt.Errorf("%s: %v", obj.Name, err)
		}
		if cfg.Namespace == "" {
			cfg.Namespace = "default"
		}
		cfg.CreationTimestamp = ts
		if _, err := s.ValidateConfig(*cfg); err != nil {
			rejected += err.Error()
		}
		out = append(out, *cfg)
	}
	return out, rejected, nil
}

func svc(hostname, vip string, res model.Resolution, ts time.Time, ports ...*model.Port) *model.Service {
	return &model.Service{
		CreationTime: ts, Hostname: host.Name(hostname), DefaultAddress: vip, Ports: ports, Resolution: res,
		Attributes: model.ServiceAttributes{Name: strings.Split(hostname, ".")[0], Namespace: "default", ServiceRegistry: "Kubernetes"},
	}
}

func inst(s *model.Service, p *model.Port, ip string, target uint32, labels map[string]string) *model.ServiceInstance {
	return &model.ServiceInstance{Service: s, ServicePort: p, Endpoint: &model.IstioEndpoint{
		Addresses: []string{ip}, ServicePortName: p.Name, EndpointPort: target, Labels: labels, Namespace: "default",
		ServiceAccount: "spiffe://cluster.local/ns/default/sa/a", TLSMode: model.IstioMutualTLSModeLabel,
	}}
}

// baseObjects: a platform service the sidecar belongs to, a ServiceEntry, a Gateway and a
// VirtualService bound to both the gateway and the mesh.
func baseObjects() []*object {
	cfgs, rejected, err := parse(baseYAML, t0)
	if err != nil || rejected != "" {
		panic(fmt.Sprintf("c14 infrastructure: base config: %v rejected=%v", err, rejected))
	}
	return []*object{
		{Name: "base-config", Kind: "BASE", Configs: cfgs},
		{Name: "base-svc-a", Kind: "BASE", Services: func() ([]*model.Service, []*model.ServiceInstance) {
			http := &model.Port{Name: "http", Port: 80, Protocol: protocol.HTTP}
			tcp := &model.Port{Name: "tcp", Port: 9000, Protocol: protocol.TCP}
			a := svc("a.default.svc.cluster.local", "10.0.0.1", model.ClientSideLB, t0, http, tcp)
			v1 := map[string]string{"app": "a", "version": "v1"}
			v2 := map[string]string{"app": "a", "version": "v2"}
			return []*model.Service{a}, []*model.ServiceInstance{
				inst(a, http, sidecarIP, 8080, v1), inst(a, tcp, sidecarIP, 9000, v1),
				inst(a, http, "10.1.1.2", 8080, v2), inst(a, tcp, "10.1.1.2", 9000, v2),
			}
		}},
	}
}

const baseYAML = `
apiVersion: networking.istio.io/v1alpha3
kind: ServiceEntry
metadata: {name: b, namespace: default}
spec:
  hosts: [b.example.com]
  location: MESH_INTERNAL
  resolution: STATIC
  ports:
  - {number: 80, name: http, protocol: HTTP}
  - {number: 443, name: tls, protocol: TLS}
  - {number: 9000, name: tcp, protocol: TCP}
  endpoints:
  - {address: 10.2.0.1, labels: {version: v1}}
  - {address: 10.2.0.2, labels: {version: v2}}
---
apiVersion: networking.istio.io/v1alpha3
kind: Gateway
metadata: {name: gw, namespace: istio-system}
spec:
  selector: {istio: ingressgateway}
  servers:
  - port: {number: 80, name: http, protocol: HTTP}
    hosts: ["*.example.com"]
  - port: {number: 443, name: https, protocol: HTTPS}
    hosts: ["*.example.com"]
    tls: {mode: SIMPLE, credentialName: cred}
---
apiVersion: networking.istio.io/v1alpha3
kind: VirtualService
metadata: {name: vs-b, namespace: default}
spec:
  hosts: [b.example.com]
  gateways: [istio-system/gw, mesh]
  http:
  - route:
    - destination: {host: b.example.com, port: {number: 80}}
`

// ---- the alphabet ----

type letter struct {
	name   string
	kind   string
	core   bool
	defect string // expected: admission rejects (non-empty = the defect the object carries)
	shape  string // optional finer shape for objects built around one specific collision
	yaml   string
	svcs   func(ts time.Time) ([]*model.Service, []*model.ServiceInstance)
}

const hdrSE = "apiVersion: networking.istio.io/v1alpha3\nkind: ServiceEntry\n"
const hdrVS = "apiVersion: networking.istio.io/v1alpha3\nkind: VirtualService\n"
const hdrGW = "apiVersion: networking.istio.io/v1alpha3\nkind: Gateway\n"
const hdrDR = "apiVersion: networking.istio.io/v1alpha3\nkind: DestinationRule\n"
const hdrSC = "apiVersion: networking.istio.io/v1alpha3\nkind: Sidecar\n"
const hdrEF = "apiVersion: networking.istio.io/v1alpha3\nkind: EnvoyFilter\n"

var letters = []letter{
	// ---------- ServiceEntries ----------
	{name: "se-same-host-as-se", kind: "SE", core: true, yaml: hdrSE + `
metadata: {name: b2}
spec:
  hosts: [b.example.com]
  resolution: STATIC
  ports:
  - {number: 80, name: http, protocol: HTTP}
  - {number: 8080, name: http-alt, protocol: HTTP}
  endpoints: [{address: 10.2.1.1}]
`},
	{name: "se-same-host-other-ns-tcp", kind: "SE", yaml: hdrSE + `
metadata: {name: b3, namespace: other}
spec:
  hosts: [b.example.com]
  resolution: STATIC
  ports:
  - {number: 80, name: tcp, protocol: TCP}
  endpoints: [{address: 10.2.2.1}]
`},
	{name: "se-same-host-as-k8s", kind: "SE", core: true, yaml: hdrSE + `
metadata: {name: a-shadow}
spec:
  hosts: [a.default.svc.cluster.local]
  resolution: STATIC
  ports:
  - {number: 80, name: http, protocol: HTTP}
  - {number: 7000, name: tcp, protocol: TCP}
  endpoints: [{address: 10.2.3.1}]
`},
	{name: "se-tcp-on-80", kind: "SE", core: true, yaml: hdrSE + `
metadata: {name: c}
spec:
  hosts: [c.example.com]
  resolution: DNS
  ports:
  - {number: 80, name: tcp, protocol: TCP}
`},
	{name: "se-same-vip-tcp", kind: "SE", core: true, yaml: hdrSE + `
metadata: {name: d}
spec:
  hosts: [d.example.com]
  addresses: [10.0.0.1]
  resolution: STATIC
  ports:
  - {number: 80, name: tcp, protocol: TCP}
  - {number: 9000, name: tcp2, protocol: TCP}
  endpoints: [{address: 10.2.4.1}]
`},
	{name: "se-same-vip-http", kind: "SE", yaml: hdrSE + `
metadata: {name: j}
spec:
  hosts: [j.example.com]
  addresses: [10.0.0.1]
  resolution: STATIC
  ports:
  - {number: 80, name: http, protocol: HTTP}
  endpoints: [{address: 10.2.5.1}]
`},
	{name: "se-http-on-9000", kind: "SE", yaml: hdrSE + `
metadata: {name: e}
spec:
  hosts: [e.example.com]
  resolution: STATIC
  ports:
  - {number: 9000, name: http, protocol: HTTP}
  endpoints: [{address: 10.2.6.1}]
`},
	{name: "se-resolution-none", kind: "SE", core: true, yaml: hdrSE + `
metadata: {name: f}
spec:
  hosts: [f.example.com]
  resolution: NONE
  location: MESH_EXTERNAL
  ports:
  - {number: 80, name: http, protocol: HTTP}
  - {number: 443, name: tls, protocol: TLS}
  - {number: 9000, name: tcp, protocol: TCP}
`},
	{name: "se-wildcard-host", kind: "SE", core: true, yaml: hdrSE + `
metadata: {name: wild}
spec:
  hosts: ["*.example.com"]
  resolution: NONE
  location: MESH_EXTERNAL
  ports:
  - {number: 80, name: http, protocol: HTTP}
  - {number: 443, name: tls, protocol: TLS}
`},
	{name: "se-cidr", kind: "SE", yaml: hdrSE + `
metadata: {name: g}
spec:
  hosts: [g.example.com]
  addresses: [10.0.0.0/24]
  resolution: NONE
  ports:
  - {number: 9000, name: tcp, protocol: TCP}
  - {number: 443, name: tls, protocol: TLS}
`},
	{name: "se-dns-two-hosts", kind: "SE", yaml: hdrSE + `
metadata: {name: h}
spec:
  hosts: [h.example.com, b.example.com]
  resolution: DNS
  location: MESH_EXTERNAL
  ports:
  - {number: 80, name: http, protocol: HTTP}
  - {number: 443, name: https, protocol: HTTPS}
  endpoints: [{address: h.backend.example.org}]
`},
	{name: "se-uds-endpoint", kind: "SE", yaml: hdrSE + `
metadata: {name: u}
spec:
  hosts: [u.example.com]
  resolution: STATIC
  ports:
  - {number: 80, name: http, protocol: HTTP}
  endpoints: [{address: "unix:///var/run/u.sock"}]
`},
	{name: "se-unnamed-protocol", kind: "SE", yaml: hdrSE + `
metadata: {name: i}
spec:
  hosts: [i.example.com]
  resolution: STATIC
  ports:
  - {number: 80, name: foo}
  - {number: 9000, name: bar}
  endpoints: [{address: 10.2.7.1}]
`},
	{name: "se-unnamed-protocol-with-vip", kind: "SE", core: true, shape: "sniffed-vip", yaml: hdrSE + `
metadata: {name: s}
spec:
  hosts: [s.example.com]
  addresses: [10.0.0.9]
  resolution: STATIC
  ports:
  - {number: 80, name: foo}
  - {number: 9000, name: bar}
  endpoints: [{address: 10.2.13.1}]
`},
	{name: "se-ipv6-vip-two-http-ports", kind: "SE", core: true, shape: "ipv6-vip", yaml: hdrSE + `
metadata: {name: v6}
spec:
  hosts: [v6.example.com]
  addresses: ["2001:db8::10"]
  resolution: STATIC
  ports:
  - {number: 8085, name: http-a, protocol: HTTP}
  - {number: 8086, name: http-b, protocol: HTTP}
  endpoints: [{address: 10.2.14.1}]
`},
	{name: "se-endpoint-on-proxy", kind: "SE", core: true, yaml: hdrSE + `
metadata: {name: k}
spec:
  hosts: [k.example.com]
  resolution: STATIC
  ports:
  - {number: 8080, name: tcp, protocol: TCP}
  - {number: 81, name: http, protocol: HTTP, targetPort: 9000}
  endpoints: [{address: 10.1.1.1, labels: {app: a}}]
`},
	// ---------- platform services ----------
	{name: "k8s-headless", kind: "K8S", core: true, svcs: func(ts time.Time) ([]*model.Service, []*model.ServiceInstance) {
		http := &model.Port{Name: "http", Port: 80, Protocol: protocol.HTTP}
		tcp := &model.Port{Name: "tcp", Port: 9000, Protocol: protocol.TCP}
		s := svc("headless.default.svc.cluster.local", "0.0.0.0", model.Passthrough, ts, http, tcp)
		return []*model.Service{s}, []*model.ServiceInstance{
			inst(s, http, "10.3.0.1", 80, nil), inst(s, tcp, "10.3.0.1", 9000, nil),
			inst(s, http, "10.3.0.2", 80, nil), inst(s, tcp, "10.3.0.2", 9000, nil),
		}
	}},
	{name: "k8s-same-vip", kind: "K8S", svcs: func(ts time.Time) ([]*model.Service, []*model.ServiceInstance) {
		tcp := &model.Port{Name: "tcp", Port: 80, Protocol: protocol.TCP}
		tls := &model.Port{Name: "tls", Port: 443, Protocol: protocol.TLS}
		s := svc("k2.default.svc.cluster.local", "10.0.0.1", model.ClientSideLB, ts, tcp, tls)
		return []*model.Service{s}, []*model.ServiceInstance{inst(s, tcp, "10.3.1.1", 8080, nil), inst(s, tls, "10.3.1.1", 8443, nil)}
	}},
	{name: "k8s-second-service-on-proxy", kind: "K8S", svcs: func(ts time.Time) ([]*model.Service, []*model.ServiceInstance) {
		tcp := &model.Port{Name: "tcp", Port: 8080, Protocol: protocol.TCP}
		http := &model.Port{Name: "http", Port: 9000, Protocol: protocol.HTTP}
		s := svc("a2.default.svc.cluster.local", "10.0.0.2", model.ClientSideLB, ts, tcp, http)
		return []*model.Service{s}, []*model.ServiceInstance{inst(s, tcp, sidecarIP, 8080, nil), inst(s, http, sidecarIP, 9000, nil)}
	}},
	// ---------- VirtualServices ----------
	{name: "vs-unknown-host", kind: "VS", core: true, yaml: hdrVS + `
metadata: {name: vs-unknown}
spec:
  hosts: [unknown.example.com]
  gateways: [istio-system/gw, mesh]
  http:
  - route: [{destination: {host: b.example.com, port: {number: 80}}}]
`},
	{name: "vs-wildcard-host", kind: "VS", core: true, yaml: hdrVS + `
metadata: {name: vs-wild}
spec:
  hosts: ["*.example.com"]
  gateways: [istio-system/gw, mesh]
  http:
  - match: [{uri: {prefix: /w}}]
    route: [{destination: {host: b.example.com, port: {number: 80}}}]
`},
	{name: "vs-same-host", kind: "VS", core: true, yaml: hdrVS + `
metadata: {name: vs-b2}
spec:
  hosts: [b.example.com]
  gateways: [istio-system/gw, mesh]
  http:
  - match: [{uri: {prefix: /x}}]
    route: [{destination: {host: a.default.svc.cluster.local, port: {number: 80}}}]
`},
	{name: "vs-short-and-long-host", kind: "VS", core: true, yaml: hdrVS + `
metadata: {name: vs-multi}
spec:
  hosts: [a, a.default.svc.cluster.local, "*.example.com"]
  gateways: [istio-system/gw, mesh]
  http:
  - route: [{destination: {host: a, port: {number: 80}}}]
`},
	{name: "vs-uppercase-host", kind: "VS", yaml: hdrVS + `
metadata: {name: vs-upper}
spec:
  hosts: [B.example.com, UNKNOWN.example.com]
  gateways: [istio-system/gw, mesh]
  http:
  - route: [{destination: {host: b.example.com, port: {number: 80}}}]
`},
	{name: "vs-weights-and-policies", kind: "VS", core: true, yaml: hdrVS + `
metadata: {name: vs-weights}
spec:
  hosts: [a.default.svc.cluster.local]
  http:
  - match: [{uri: {prefix: /zero}}]
    route:
    - {destination: {host: a.default.svc.cluster.local, subset: v1}, weight: 0}
    - {destination: {host: a.default.svc.cluster.local, subset: v2}, weight: 100}
  - match: [{headers: {x-user: {exact: u}}, queryParams: {q: {regex: "a.*"}}, withoutHeaders: {x-no: {prefix: p}}}]
    route:
    - {destination: {host: a.default.svc.cluster.local, subset: v1}, weight: 30}
    - {destination: {host: b.example.com, port: {number: 80}}, weight: 70}
    mirror: {host: b.example.com, port: {number: 80}}
    mirrorPercentage: {value: 12.5}
    fault: {delay: {fixedDelay: 1s, percentage: {value: 0.1}}, abort: {httpStatus: 503, percentage: {value: 100}}}
    retries: {attempts: 3, perTryTimeout: 2s, retryOn: "5xx,gateway-error"}
    timeout: 5s
    corsPolicy: {allowOrigins: [{regex: ".*example.*"}], allowMethods: [GET], maxAge: 24h}
    headers: {request: {set: {x-a: b}, remove: [x-c]}, response: {add: {x-d: e}}}
  - route: [{destination: {host: a.default.svc.cluster.local}}]
`},
	{name: "vs-all-zero-weights", kind: "VS", defect: "zeroweights", yaml: hdrVS + `
metadata: {name: vs-zero}
spec:
  hosts: [b.example.com]
  gateways: [istio-system/gw, mesh]
  http:
  - route:
    - {destination: {host: b.example.com, port: {number: 80}, subset: v1}, weight: 0}
    - {destination: {host: b.example.com, port: {number: 80}, subset: v2}, weight: 0}
  tcp:
  - match: [{port: 9000}]
    route:
    - {destination: {host: b.example.com, port: {number: 9000}, subset: v1}, weight: 0}
    - {destination: {host: b.example.com, port: {number: 9000}, subset: v2}, weight: 0}
`},
	{name: "vs-tcp-zero-and-hundred", kind: "VS", yaml: hdrVS + `
metadata: {name: vs-tcp-w}
spec:
  hosts: [b.example.com]
  gateways: [istio-system/gw-tcp, mesh]
  tcp:
  - match: [{port: 9000}, {port: 80}]
    route:
    - {destination: {host: b.example.com, port: {number: 9000}, subset: v1}, weight: 0}
    - {destination: {host: b.example.com, port: {number: 9000}, subset: v2}, weight: 100}
`},
	{name: "vs-tls-overlapping-sni", kind: "VS", core: true, shape: "tls-sni", yaml: hdrVS + `
metadata: {name: vs-tls}
spec:
  hosts: [b.example.com, x.example.com, y.example.com]
  gateways: [istio-system/gw-pass, mesh]
  tls:
  - match: [{port: 443, sniHosts: [b.example.com, x.example.com]}]
    route: [{destination: {host: b.example.com, port: {number: 443}}}]
  - match: [{port: 443, sniHosts: [x.example.com, y.example.com]}]
    route: [{destination: {host: b.example.com, port: {number: 443}}}]
`},
	{name: "vs-tls-same-sni-reordered", kind: "VS", shape: "tls-sni", yaml: hdrVS + `
metadata: {name: vs-tls2}
spec:
  hosts: [b.example.com, x.example.com]
  gateways: [istio-system/gw-pass, mesh]
  tls:
  - match: [{port: 443, sniHosts: [x.example.com, b.example.com]}]
    route: [{destination: {host: b.example.com, port: {number: 443}}}]
  - match: [{port: 443, sniHosts: [b.example.com, x.example.com]}]
    route: [{destination: {host: b.example.com, port: {number: 443}, subset: v1}}]
`},
	{name: "vs-tls-sni-of-second-service", kind: "VS", shape: "tls-sni-2nd-service", yaml: hdrSE + `
metadata: {name: t}
spec:
  hosts: [t.example.com]
  resolution: NONE
  location: MESH_EXTERNAL
  ports:
  - {number: 443, name: tls, protocol: TLS}
  - {number: 9000, name: tcp, protocol: TCP}
---
` + hdrVS + `
metadata: {name: vs-tls-t}
spec:
  hosts: [t.example.com, x.example.com]
  tls:
  - match: [{port: 443, sniHosts: [t.example.com, x.example.com]}]
    route: [{destination: {host: t.example.com, port: {number: 443}}}]
  tcp:
  - match: [{port: 9000, destinationSubnets: [10.1.0.0/16, 10.5.0.0/16]}]
    route: [{destination: {host: t.example.com, port: {number: 9000}}}]
`},
	{name: "vs-repeated-match-values", kind: "VS", shape: "repeated-values", yaml: hdrVS + `
metadata: {name: vs-rep}
spec:
  hosts: [b.example.com]
  gateways: [istio-system/gw-pass, istio-system/gw-tcp, mesh]
  tls:
  - match: [{port: 443, sniHosts: [b.example.com, b.example.com]}]
    route: [{destination: {host: b.example.com, port: {number: 443}}}]
  tcp:
  - match: [{port: 9000, destinationSubnets: [10.0.0.0/8, 10.0.0.1/8]}]
    route: [{destination: {host: b.example.com, port: {number: 9000}}}]
`},
	{name: "vs-tcp-overlapping-subnets", kind: "VS", core: true, shape: "tcp-subnets", yaml: hdrVS + `
metadata: {name: vs-tcp}
spec:
  hosts: [b.example.com]
  gateways: [istio-system/gw-tcp, mesh]
  tcp:
  - match: [{port: 9000, destinationSubnets: [10.0.0.0/8]}]
    route: [{destination: {host: b.example.com, port: {number: 9000}}}]
  - match: [{port: 9000, destinationSubnets: [10.0.0.0/8, 10.1.0.0/16]}]
    route: [{destination: {host: b.example.com, port: {number: 9000}, subset: v1}}]
  - match: [{port: 80}]
    route: [{destination: {host: b.example.com, port: {number: 9000}}}]
`},
	{name: "vs-redirect-rewrite-direct", kind: "VS", yaml: hdrVS + `
metadata: {name: vs-r}
spec:
  hosts: [r.example.com]
  gateways: [istio-system/gw]
  http:
  - match: [{uri: {regex: "/re/.*"}, port: 80, method: {exact: GET}, authority: {prefix: r.}, scheme: {exact: http}}]
    redirect: {uri: /new, authority: new.example.com, redirectCode: 302}
  - match: [{uri: {exact: /direct}, ignoreUriCase: true}]
    directResponse: {status: 418, body: {string: teapot}}
  - match: [{uri: {prefix: /rw}}]
    rewrite: {uriRegexRewrite: {match: "^/rw/(.*)$", rewrite: "/\\1"}, authority: b.example.com}
    route: [{destination: {host: b.example.com, port: {number: 80}}}]
  - name: last
    route: [{destination: {host: b.example.com, port: {number: 80}}, headers: {request: {add: {x-w: "yes-w"}}}}]
`},
	// ---------- Gateways ----------
	{name: "gw-same-port-and-host", kind: "GW", core: true, yaml: hdrGW + `
metadata: {name: gw2, namespace: istio-system}
spec:
  selector: {istio: ingressgateway}
  servers:
  - port: {number: 80, name: http, protocol: HTTP}
    hosts: ["*.example.com"]
  - port: {number: 443, name: https, protocol: HTTPS}
    hosts: ["*.example.com"]
    tls: {mode: SIMPLE, credentialName: cred2}
`},
	{name: "gw-passthrough-443", kind: "GW", core: true, yaml: hdrGW + `
metadata: {name: gw-pass, namespace: istio-system}
spec:
  selector: {istio: ingressgateway}
  servers:
  - port: {number: 443, name: tls-pass, protocol: TLS}
    hosts: ["*.example.com", "b.example.com"]
    tls: {mode: PASSTHROUGH}
`},
	{name: "gw-mutual-and-simple-same-host", kind: "GW", core: true, yaml: hdrGW + `
metadata: {name: gw-mutual, namespace: istio-system}
spec:
  selector: {istio: ingressgateway}
  servers:
  - port: {number: 443, name: https-m, protocol: HTTPS}
    hosts: [b.example.com]
    tls: {mode: MUTUAL, credentialName: cred3}
  - port: {number: 443, name: https-s, protocol: HTTPS}
    hosts: [b.example.com, "*.example.com"]
    tls: {mode: SIMPLE, credentialName: cred4}
`},
	{name: "gw-tcp-on-80", kind: "GW", core: true, yaml: hdrGW + `
metadata: {name: gw-tcp, namespace: istio-system}
spec:
  selector: {istio: ingressgateway}
  servers:
  - port: {number: 80, name: tcp, protocol: TCP}
    hosts: ["*"]
  - port: {number: 9000, name: tcp-9000, protocol: TCP}
    hosts: ["*"]
`},
	{name: "gw-two-service-ports-one-target-port", kind: "GW", core: true, shape: "shared-target-port", yaml: hdrSE + `
metadata: {name: ingressgateway-service, namespace: istio-system}
spec:
  hosts: [istio-ingressgateway.istio-system.svc.cluster.local]
  location: MESH_INTERNAL
  resolution: STATIC
  ports:
  - {number: 80, name: http, protocol: HTTP, targetPort: 8080}
  - {number: 443, name: https, protocol: HTTPS, targetPort: 8443}
  - {number: 8443, name: https-alt, protocol: HTTPS, targetPort: 8443}
  endpoints:
  - {address: 10.9.9.1, labels: {istio: ingressgateway}}
---
` + hdrGW + `
metadata: {name: gw-alt, namespace: istio-system}
spec:
  selector: {istio: ingressgateway}
  servers:
  - port: {number: 8443, name: https-alt, protocol: HTTPS}
    hosts: ["*.example.com"]
    tls: {mode: SIMPLE, credentialName: cred-alt}
  - port: {number: 8443, name: https-c, protocol: HTTPS}
    hosts: [c.example.com]
    tls: {mode: SIMPLE, credentialName: cred-c}
  - port: {number: 443, name: https-c2, protocol: HTTPS}
    hosts: [c.example.com]
    tls: {mode: SIMPLE, credentialName: cred-c2}
`},
	{name: "gw-http-on-443", kind: "GW", yaml: hdrGW + `
metadata: {name: gw-http443, namespace: istio-system}
spec:
  selector: {istio: ingressgateway}
  servers:
  - port: {number: 443, name: http, protocol: HTTP}
    hosts: ["*.example.com"]
`},
	{name: "gw-auto-passthrough", kind: "GW", yaml: hdrGW + `
metadata: {name: gw-auto, namespace: istio-system}
spec:
  selector: {istio: ingressgateway}
  servers:
  - port: {number: 15443, name: tls, protocol: TLS}
    hosts: ["*.example.com", "*.local"]
    tls: {mode: AUTO_PASSTHROUGH}
`},
	{name: "gw-redirect-namespaced-hosts", kind: "GW", yaml: hdrGW + `
metadata: {name: gw-redirect, namespace: istio-system}
spec:
  selector: {istio: ingressgateway}
  servers:
  - port: {number: 80, name: http, protocol: HTTP}
    hosts: ["default/b.example.com", "*/unknown.example.com"]
    tls: {httpsRedirect: true}
  - port: {number: 8080, name: http2, protocol: HTTP2}
    hosts: ["default/*"]
`},
	{name: "gw-tls-terminate-tcp", kind: "GW", yaml: hdrGW + `
metadata: {name: gw-tlsterm, namespace: istio-system}
spec:
  selector: {istio: ingressgateway}
  servers:
  - port: {number: 443, name: tls-term, protocol: TLS}
    hosts: ["b.example.com"]
    tls: {mode: SIMPLE, credentialName: cred5}
  - port: {number: 9000, name: tls-term2, protocol: TLS}
    hosts: ["b.example.com", "x.example.com"]
    tls: {mode: ISTIO_MUTUAL}
`},
	// ---------- DestinationRules ----------
	{name: "dr-subsets-empty-unlabelled", kind: "DR", core: true, yaml: hdrDR + `
metadata: {name: dr-b}
spec:
  host: b.example.com
  trafficPolicy:
    loadBalancer: {consistentHash: {httpHeaderName: x-user}}
    connectionPool: {tcp: {maxConnections: 10, connectTimeout: 1s}, http: {http1MaxPendingRequests: 5, maxRequestsPerConnection: 2}}
    outlierDetection: {consecutive5xxErrors: 3, interval: 5s, baseEjectionTime: 30s, maxEjectionPercent: 50}
    tls: {mode: SIMPLE, sni: b.example.com}
    portLevelSettings:
    - port: {number: 443}
      tls: {mode: DISABLE}
  subsets:
  - {name: v1, labels: {version: v1}}
  - {name: v9, labels: {version: v9}}
  - {name: all}
`},
	{name: "dr-second-for-same-host", kind: "DR", yaml: hdrDR + `
metadata: {name: dr-b2}
spec:
  host: b.example.com
  trafficPolicy: {tls: {mode: ISTIO_MUTUAL}}
  subsets:
  - {name: v1, labels: {version: v1}, trafficPolicy: {loadBalancer: {simple: LEAST_REQUEST}}}
  - {name: v2, labels: {version: v2}}
`},
	{name: "dr-wildcard-host", kind: "DR", core: true, yaml: hdrDR + `
metadata: {name: dr-wild}
spec:
  host: "*.example.com"
  trafficPolicy: {tls: {mode: MUTUAL, clientCertificate: /c.pem, privateKey: /k.pem, caCertificates: /ca.pem}}
  subsets:
  - {name: v1, labels: {version: v1}}
  - {name: v2, labels: {version: v2}}
`},
	{name: "dr-locality-and-subsets-for-k8s", kind: "DR", yaml: hdrDR + `
metadata: {name: dr-a}
spec:
  host: a.default.svc.cluster.local
  trafficPolicy:
    loadBalancer:
      simple: ROUND_ROBIN
      localityLbSetting: {enabled: true, distribute: [{from: "r1/*", to: {"r1/*": 80, "r2/*": 20}}]}
      warmup: {duration: 10s}
    outlierDetection: {consecutiveGatewayErrors: 2}
  subsets:
  - {name: v1, labels: {version: v1}}
  - {name: v2, labels: {version: v2}}
`},
	// ---------- Sidecars ----------
	{name: "sc-overlapping-egress", kind: "SC", core: true, yaml: hdrSC + `
metadata: {name: sc-overlap}
spec:
  egress:
  - port: {number: 80, name: http, protocol: HTTP}
    hosts: ["*/*"]
  - port: {number: 9000, name: tcp, protocol: TCP}
    bind: 0.0.0.0
    hosts: ["*/b.example.com", "*/a.default.svc.cluster.local"]
  - hosts: ["*/*"]
`},
	{name: "sc-ingress-on-service-port", kind: "SC", core: true, yaml: hdrSC + `
metadata: {name: sc-ingress}
spec:
  workloadSelector: {labels: {app: a}}
  ingress:
  - port: {number: 8080, name: http, protocol: HTTP}
    defaultEndpoint: 127.0.0.1:8080
  - port: {number: 9000, name: tcp, protocol: TCP}
    defaultEndpoint: unix:///var/run/in.sock
  egress:
  - hosts: ["*/*"]
`},
	{name: "sc-egress-tcp-on-http-port", kind: "SC", yaml: hdrSC + `
metadata: {name: sc-tcp80}
spec:
  egress:
  - port: {number: 80, name: tcp, protocol: TCP}
    hosts: ["default/*"]
  - port: {number: 443, name: https, protocol: HTTPS}
    hosts: ["*/*"]
  - port: {number: 3306, name: mysql, protocol: MYSQL}
    bind: 127.0.0.1
    captureMode: NONE
    hosts: ["*/b.example.com"]
`},
	{name: "sc-egress-uds-and-restricted", kind: "SC", yaml: hdrSC + `
metadata: {name: sc-uds}
spec:
  outboundTrafficPolicy: {mode: REGISTRY_ONLY}
  egress:
  - bind: unix:///var/run/out.sock
    port: {number: 0, name: http-uds, protocol: HTTP}
    captureMode: NONE
    hosts: ["*/b.example.com"]
  - hosts: ["./*", "istio-system/*"]
`},
	// ---------- EnvoyFilters (root namespace: apply to every proxy) ----------
	{name: "ef-add-duplicate-names", kind: "EF", core: true, yaml: hdrEF + `
metadata: {name: ef-add, namespace: istio-system}
spec:
  configPatches:
  - applyTo: CLUSTER
    patch:
      operation: ADD
      value:
        name: "outbound|80||b.example.com"
        type: STATIC
        connect_timeout: 1s
        load_assignment: {cluster_name: x, endpoints: [{lb_endpoints: [{endpoint: {address: {socket_address: {address: 10.7.7.7, port_value: 80}}}}]}]}
  - applyTo: CLUSTER
    patch:
      operation: ADD
      value: {name: BlackHoleCluster, type: STATIC, connect_timeout: 1s}
  - applyTo: LISTENER
    patch:
      operation: ADD
      value:
        name: 0.0.0.0_80
        address: {socket_address: {address: 0.0.0.0, port_value: 80}}
        filter_chains:
        - filters:
          - name: envoy.filters.network.tcp_proxy
            typed_config: {"@type": type.googleapis.com/envoy.extensions.filters.network.tcp_proxy.v3.TcpProxy, stat_prefix: x, cluster: BlackHoleCluster}
  - applyTo: VIRTUAL_HOST
    patch:
      operation: ADD
      value:
        name: "b.example.com:80"
        domains: [b.example.com, extra.example.com]
        routes: [{match: {prefix: /}, direct_response: {status: 200}}]
`},
	{name: "ef-merge-everything", kind: "EF", core: true, yaml: hdrEF + `
metadata: {name: ef-merge, namespace: istio-system}
spec:
  configPatches:
  - applyTo: CLUSTER
    patch: {operation: MERGE, value: {connect_timeout: 3s, lb_policy: LEAST_REQUEST}}
  - applyTo: LISTENER
    patch: {operation: MERGE, value: {per_connection_buffer_limit_bytes: 32768}}
  - applyTo: NETWORK_FILTER
    match: {listener: {filterChain: {filter: {name: envoy.filters.network.http_connection_manager}}}}
    patch:
      operation: MERGE
      value:
        typed_config: {"@type": type.googleapis.com/envoy.extensions.filters.network.http_connection_manager.v3.HttpConnectionManager, xff_num_trusted_hops: 2}
  - applyTo: HTTP_FILTER
    match: {listener: {filterChain: {filter: {name: envoy.filters.network.http_connection_manager, subFilter: {name: envoy.filters.http.router}}}}}
    patch:
      operation: INSERT_BEFORE
      value:
        name: envoy.lua
        typed_config: {"@type": type.googleapis.com/envoy.extensions.filters.http.lua.v3.Lua, inline_code: "function envoy_on_request(h) end"}
  - applyTo: ROUTE_CONFIGURATION
    patch: {operation: MERGE, value: {request_headers_to_add: [{header: {key: x-ef, value: "1"}}]}}
  - applyTo: VIRTUAL_HOST
    patch: {operation: MERGE, value: {include_request_attempt_count: true}}
  - applyTo: HTTP_ROUTE
    patch: {operation: MERGE, value: {route: {timeout: 7s}}}
`},
	{name: "ef-remove-referenced", kind: "EF", yaml: hdrEF + `
metadata: {name: ef-remove, namespace: istio-system}
spec:
  configPatches:
  - applyTo: CLUSTER
    match: {cluster: {name: "outbound|80||b.example.com"}}
    patch: {operation: REMOVE}
  - applyTo: LISTENER
    match: {listener: {portNumber: 9000}}
    patch: {operation: REMOVE}
  - applyTo: VIRTUAL_HOST
    match: {routeConfiguration: {vhost: {name: "b.example.com:80"}}}
    patch: {operation: REMOVE}
  - applyTo: NETWORK_FILTER
    match: {listener: {portNumber: 443, filterChain: {filter: {name: envoy.filters.network.tcp_proxy}}}}
    patch: {operation: REMOVE}
  - applyTo: FILTER_CHAIN
    match: {listener: {portNumber: 80}}
    patch: {operation: REMOVE}
`},
	{name: "ef-add-filter-chain-and-route", kind: "EF", yaml: hdrEF + `
metadata: {name: ef-fc, namespace: istio-system}
spec:
  configPatches:
  - applyTo: FILTER_CHAIN
    match: {listener: {portNumber: 9000}}
    patch:
      operation: ADD
      value:
        filters:
        - name: envoy.filters.network.tcp_proxy
          typed_config: {"@type": type.googleapis.com/envoy.extensions.filters.network.tcp_proxy.v3.TcpProxy, stat_prefix: "yy", cluster: BlackHoleCluster}
  - applyTo: HTTP_ROUTE
    patch:
      operation: INSERT_FIRST
      value: {name: ef-first, match: {prefix: /ef}, direct_response: {status: 204}}
`},
	{name: "ef-add-http-listener-with-own-rds-name", kind: "EF", yaml: hdrEF + `
metadata: {name: ef-rds, namespace: istio-system}
spec:
  configPatches:
  - applyTo: LISTENER
    patch:
      operation: ADD
      value:
        name: ef-http-listener
        address: {socket_address: {address: 127.0.0.1, port_value: 18080}}
        filter_chains:
        - filters:
          - name: envoy.filters.network.http_connection_manager
            typed_config:
              "@type": type.googleapis.com/envoy.extensions.filters.network.http_connection_manager.v3.HttpConnectionManager
              stat_prefix: ef
              rds: {route_config_name: ef-custom-route, config_source: {ads: {}, resource_api_version: V3}}
              http_filters:
              - name: envoy.filters.http.router
                typed_config: {"@type": type.googleapis.com/envoy.extensions.filters.http.router.v3.Router}
`},
	// ---------- objects admission validation rejects ----------
	{name: "se-port-zero", kind: "SE", core: true, defect: "port0", yaml: hdrSE + `
metadata: {name: p0}
spec:
  hosts: [p0.example.com]
  resolution: STATIC
  ports:
  - {number: 0, name: http, protocol: HTTP}
  - {number: 80, name: http-80, protocol: HTTP, targetPort: 0}
  endpoints: [{address: 10.2.8.1}]
`},
	{name: "se-empty-host", kind: "SE", core: true, defect: "emptyhost", yaml: hdrSE + `
metadata: {name: nohost}
spec:
  hosts: [""]
  resolution: STATIC
  ports:
  - {number: 80, name: http, protocol: HTTP}
  - {number: 9000, name: tcp, protocol: TCP}
  endpoints: [{address: 10.2.9.1}]
`},
	{name: "se-unknown-protocol", kind: "SE", defect: "protocol", yaml: hdrSE + `
metadata: {name: proto}
spec:
  hosts: [proto.example.com]
  resolution: STATIC
  ports:
  - {number: 80, name: foo, protocol: FOO}
  - {number: 9000, name: udp, protocol: UDP}
  endpoints: [{address: 10.2.10.1}]
`},
	{name: "se-bad-addresses", kind: "SE", defect: "address", yaml: hdrSE + `
metadata: {name: badaddr}
spec:
  hosts: [badaddr.example.com]
  addresses: [10.0.0.0/99, not-an-ip]
  resolution: STATIC
  ports:
  - {number: 80, name: http, protocol: HTTP}
  - {number: 80, name: http-dup, protocol: HTTP}
  - {number: 70000, name: tcp-big, protocol: TCP}
  endpoints:
  - {address: not-an-ip}
  - {address: 10.2.11.1, ports: {nosuch: 1, http: 99999}, weight: 4294967295}
  - {address: 10.2.11.2, weight: 4294967295}
`},
	{name: "vs-negative-weight", kind: "VS", core: true, defect: "weight", yaml: hdrVS + `
metadata: {name: vs-neg}
spec:
  hosts: [b.example.com]
  gateways: [istio-system/gw, mesh]
  http:
  - route:
    - {destination: {host: b.example.com, port: {number: 80}}, weight: -1}
    - {destination: {host: a.default.svc.cluster.local, port: {number: 80}}, weight: 101}
  tcp:
  - match: [{port: 9000}]
    route:
    - {destination: {host: b.example.com, port: {number: 9000}}, weight: -1}
    - {destination: {host: a.default.svc.cluster.local, port: {number: 9000}}, weight: 101}
`},
	{name: "vs-bad-regex", kind: "VS", core: true, defect: "regex", yaml: hdrVS + `
metadata: {name: vs-regex}
spec:
  hosts: [b.example.com]
  gateways: [istio-system/gw, mesh]
  http:
  - match: [{uri: {regex: "["}}, {headers: {x-h: {regex: "("}}}, {queryParams: {q: {regex: "*"}}}, {uri: {regex: ""}}]
    rewrite: {uriRegexRewrite: {match: "[", rewrite: "x"}}
    corsPolicy: {allowOrigins: [{regex: "("}]}
    route: [{destination: {host: b.example.com, port: {number: 80}}}]
`},
	{name: "vs-empty-routes", kind: "VS", defect: "emptyroute", yaml: hdrVS + `
metadata: {name: vs-empty}
spec:
  hosts: [b.example.com]
  gateways: [istio-system/gw, istio-system/gw-pass, istio-system/gw-tcp, mesh]
  http:
  - match: [{uri: {prefix: /none}}]
  - {}
  tcp:
  - match: [{port: 9000}]
  - {}
  tls:
  - route: [{destination: {host: b.example.com, port: {number: 443}}}]
  - match: [{port: 443, sniHosts: []}]
    route: [{destination: {host: b.example.com, port: {number: 443}}}]
`},
	{name: "vs-empty-destination", kind: "VS", defect: "destination", yaml: hdrVS + `
metadata: {name: vs-nodest}
spec:
  hosts: [b.example.com]
  gateways: [istio-system/gw, mesh]
  http:
  - match: [{uri: {prefix: /nohost}}]
    route: [{destination: {host: ""}}]
  - match: [{uri: {prefix: /nodest}}]
    route: [{}]
  - match: [{uri: {prefix: /badsubset}}]
    route: [{destination: {host: b.example.com, subset: nosuch, port: {number: 12345}}}]
    mirror: {host: ""}
  - match: [{uri: {}}, {headers: {"": {exact: v}}}, {headers: {x-null: {}}}]
    route: [{destination: {host: b.example.com}}]
`},
	{name: "vs-no-hosts", kind: "VS", defect: "nohosts", yaml: hdrVS + `
metadata: {name: vs-nohosts}
spec:
  hosts: []
  gateways: [istio-system/gw, mesh]
  http:
  - route: [{destination: {host: b.example.com, port: {number: 80}}}]
`},
	{name: "vs-empty-and-odd-hosts", kind: "VS", defect: "oddhosts", yaml: hdrVS + `
metadata: {name: vs-oddhosts}
spec:
  hosts: ["", "*", "b.example.com", "b.example.com", "*.example.com", "*example.com", "10.0.0.1"]
  gateways: [istio-system/gw, mesh]
  http:
  - route: [{destination: {host: b.example.com, port: {number: 80}}}]
`},
	{name: "vs-out-of-range-numbers", kind: "VS", defect: "range", yaml: hdrVS + `
metadata: {name: vs-range}
spec:
  hosts: [b.example.com]
  gateways: [istio-system/gw, mesh]
  http:
  - match: [{uri: {prefix: /range}}]
    fault: {abort: {httpStatus: 9999, percentage: {value: 200}}, delay: {fixedDelay: -1s, percentage: {value: -5}}}
    mirrorPercentage: {value: 1000}
    mirror: {host: b.example.com, port: {number: 80}}
    retries: {attempts: -3, perTryTimeout: -2s, retryOn: "no-such-policy,5xx"}
    timeout: -5s
    corsPolicy: {maxAge: -1s}
    route: [{destination: {host: b.example.com, port: {number: 80}}}]
  - match: [{uri: {prefix: /redirect}}]
    redirect: {redirectCode: 999, port: 99999}
  - match: [{uri: {prefix: /direct}}]
    directResponse: {status: 99}
  - match: [{uri: {prefix: /hdr}}]
    headers: {request: {set: {"": v, "bad header": "x\ny"}}}
    route: [{destination: {host: b.example.com, port: {number: 80}}}]
`},
	{name: "dr-empty-subset-name", kind: "DR", core: true, defect: "subsetname", yaml: hdrDR + `
metadata: {name: dr-emptysubset}
spec:
  host: b.example.com
  subsets:
  - {name: "", labels: {version: v1}}
  - {name: "a|b", labels: {version: v2}}
`},
	{name: "dr-duplicate-subsets", kind: "DR", defect: "dupsubset", yaml: hdrDR + `
metadata: {name: dr-dup}
spec:
  host: b.example.com
  subsets:
  - {name: v1, labels: {version: v1}}
  - {name: v1, labels: {version: v2}}
`},
	{name: "dr-bad-policy", kind: "DR", defect: "policy", yaml: hdrDR + `
metadata: {name: dr-bad}
spec:
  host: b.example.com
  trafficPolicy:
    loadBalancer: {consistentHash: {minimumRingSize: 99999999999}, localityLbSetting: {distribute: [{from: "", to: {"x": 500}}]}}
    connectionPool: {tcp: {maxConnections: -1, connectTimeout: -1s}, http: {http2MaxRequests: -5, idleTimeout: -1s}}
    outlierDetection: {consecutive5xxErrors: 0, interval: -5s, baseEjectionTime: 0s, maxEjectionPercent: 500, minHealthPercent: -3}
    tls: {mode: MUTUAL}
    portLevelSettings:
    - port: {number: 0}
      tls: {mode: SIMPLE, sni: ""}
    - port: {number: 80}
      loadBalancer: {consistentHash: {httpCookie: {name: ""}}}
`},
	{name: "dr-empty-host", kind: "DR", defect: "emptyhost", yaml: hdrDR + `
metadata: {name: dr-nohost}
spec:
  host: ""
  trafficPolicy: {tls: {mode: ISTIO_MUTUAL}}
  subsets:
  - {name: v1, labels: {version: v1}}
`},
	{name: "gw-port-zero", kind: "GW", core: true, defect: "port0", yaml: hdrGW + `
metadata: {name: gw-p0, namespace: istio-system}
spec:
  selector: {istio: ingressgateway}
  servers:
  - port: {number: 0, name: http, protocol: HTTP}
    hosts: ["*"]
  - port: {number: 0, name: https, protocol: HTTPS}
    hosts: ["*"]
    tls: {mode: SIMPLE, credentialName: cred6}
  - port: {number: 99999, name: tcp, protocol: TCP}
    hosts: ["*"]
`},
	{name: "gw-empty-hosts", kind: "GW", defect: "emptyhost", yaml: hdrGW + `
metadata: {name: gw-nohosts, namespace: istio-system}
spec:
  selector: {istio: ingressgateway}
  servers:
  - port: {number: 80, name: http, protocol: HTTP}
    hosts: []
  - port: {number: 8081, name: http2, protocol: HTTP}
    hosts: [""]
  - port: {number: 443, name: tls, protocol: TLS}
    hosts: ["", "ns/"]
    tls: {mode: PASSTHROUGH}
`},
	{name: "gw-bad-tls-and-protocol", kind: "GW", defect: "tls", yaml: hdrGW + `
metadata: {name: gw-badtls, namespace: istio-system}
spec:
  selector: {istio: ingressgateway}
  servers:
  - port: {number: 443, name: https-notls, protocol: HTTPS}
    hosts: ["notls.example.com"]
  - port: {number: 8443, name: https-nocert, protocol: HTTPS}
    hosts: ["nocert.example.com"]
    tls: {mode: SIMPLE}
  - port: {number: 8444, name: foo, protocol: FOO}
    hosts: ["foo.example.com"]
  - port: {number: 8445, name: http-pass, protocol: HTTP}
    hosts: ["pass.example.com"]
    tls: {mode: PASSTHROUGH}
  - port: {number: 8446, name: tls-mutual-nocert, protocol: TLS}
    hosts: ["m.example.com"]
    tls: {mode: MUTUAL, minProtocolVersion: TLSV1_3, maxProtocolVersion: TLSV1_0}
`},
	{name: "gw-partial-wildcard-and-duplicates", kind: "GW", defect: "hosts", yaml: hdrGW + `
metadata: {name: gw-partial, namespace: istio-system}
spec:
  selector: {istio: ingressgateway}
  servers:
  - port: {number: 443, name: dup, protocol: TLS}
    hosts: ["*foo.example.com", "b.*.com", "b.example.com", "b.example.com"]
    tls: {mode: PASSTHROUGH}
  - port: {number: 443, name: dup, protocol: TLS}
    hosts: ["B.example.com"]
    tls: {mode: PASSTHROUGH}
  - port: {number: 80, name: http-dup, protocol: HTTP}
    hosts: ["b.example.com", "b.example.com", "B.EXAMPLE.COM"]
`},
	{name: "sc-malformed", kind: "SC", core: true, defect: "malformed", yaml: hdrSC + `
metadata: {name: sc-bad}
spec:
  ingress:
  - port: {number: 0, name: http, protocol: HTTP}
    defaultEndpoint: garbage
  - port: {number: 8080, name: foo, protocol: FOO}
    defaultEndpoint: 127.0.0.1:notaport
  - port: {number: 8080, name: dup, protocol: HTTP}
    bind: not-an-ip
    defaultEndpoint: 0.0.0.0:70000
  egress:
  - hosts: []
  - port: {number: 80, name: http, protocol: HTTP}
    bind: not-an-ip
    hosts: ["nonamespace", "*/*"]
  - port: {number: 80, name: http-dup, protocol: HTTP}
    hosts: ["*/*"]
  - port: {number: 0, name: zero, protocol: TCP}
    hosts: ["*/*"]
`},
	{name: "sc-empty", kind: "SC", defect: "empty", yaml: hdrSC + `
metadata: {name: sc-empty}
spec:
  egress: []
`},
	{name: "vs-nil-destinations", kind: "VS", defect: "nildest", yaml: hdrVS + `
metadata: {name: vs-nildest}
spec:
  hosts: [b.example.com]
  gateways: [istio-system/gw-pass, istio-system/gw-tcp, mesh]
  tcp:
  - match: [{port: 9000}]
    route: [{}]
  tls:
  - match: [{port: 443, sniHosts: [b.example.com]}]
    route: [{weight: 50}, {weight: 50}]
`},
	{name: "vs-nil-fields", kind: "VS", defect: "nilfields", yaml: hdrVS + `
metadata: {name: vs-nil}
spec:
  hosts: [b.example.com]
  gateways: [istio-system/gw, mesh]
  http:
  - match: [{uri: {prefix: /nil1}}]
    fault: {abort: {}, delay: {}}
    retries: {}
    rewrite: {}
    corsPolicy: {allowOrigins: [{}]}
    headers: {request: {}, response: {}}
    mirrors: [{}]
    route: [{destination: {host: b.example.com, port: {}}, headers: {}}]
  - match: [{uri: {prefix: /nil2}}]
    redirect: {}
  - match: [{uri: {prefix: /nil3}}]
    directResponse: {}
  - match: [{}]
    route: [{destination: {host: b.example.com, port: {number: 80}}}]
`},
	{name: "dr-nil-fields", kind: "DR", defect: "nilfields", yaml: hdrDR + `
metadata: {name: dr-nil}
spec:
  host: b.example.com
  trafficPolicy:
    loadBalancer: {consistentHash: {}}
    connectionPool: {}
    outlierDetection: {}
    tls: {}
    tunnel: {}
    portLevelSettings: [{}]
  subsets:
  - {name: v1, trafficPolicy: {portLevelSettings: [{}], loadBalancer: {}}}
`},
	{name: "gw-nil-port", kind: "GW", defect: "nilport", yaml: hdrGW + `
metadata: {name: gw-nilport, namespace: istio-system}
spec:
  selector: {istio: ingressgateway}
  servers:
  - hosts: ["nilport.example.com"]
  - port: {number: 8085, name: http, protocol: HTTP}
    hosts: ["*"]
`},
	{name: "sc-nil-ports", kind: "SC", defect: "nilport", yaml: hdrSC + `
metadata: {name: sc-nilport}
spec:
  ingress:
  - defaultEndpoint: 127.0.0.1:8080
  egress:
  - hosts: ["*/*"]
`},
	{name: "ef-nil-patch", kind: "EF", defect: "nilpatch", yaml: hdrEF + `
metadata: {name: ef-nil, namespace: istio-system}
spec:
  configPatches:
  - applyTo: CLUSTER
  - applyTo: LISTENER
    match: {listener: {}}
  - applyTo: HTTP_ROUTE
    match: {routeConfiguration: {vhost: {route: {}}}}
    patch: {}
  - {}
`},
	{name: "se-nil-fields", kind: "SE", defect: "nilfields", yaml: hdrSE + `
metadata: {name: se-nil}
spec:
  hosts: [nil.example.com]
  resolution: STATIC
  ports: [{}, {number: 80, name: http, protocol: HTTP}]
  endpoints: [{}, {address: 10.2.12.1, ports: {http: 0}}]
`},
	{name: "ef-malformed-values", kind: "EF", defect: "malformed", yaml: hdrEF + `
metadata: {name: ef-bad, namespace: istio-system}
spec:
  configPatches:
  - applyTo: CLUSTER
    patch: {operation: ADD, value: {connect_timeout: 1s}}
  - applyTo: LISTENER
    patch: {operation: ADD, value: {name: no-address}}
  - applyTo: VIRTUAL_HOST
    patch: {operation: ADD, value: {name: no-domains}}
  - applyTo: HTTP_ROUTE
    patch: {operation: INSERT_FIRST, value: {name: no-match}}
  - applyTo: CLUSTER
    patch: {operation: MERGE, value: {no_such_field: 1}}
  - applyTo: NETWORK_FILTER
    patch: {operation: ADD}
  - applyTo: HTTP_FILTER
    patch: {operation: INSERT_BEFORE, value: {typed_config: {"@type": type.googleapis.com/no.such.Type}}}
`},
}

var alphabet []*object

func init() {
	for i, l := range letters {
		ts := t0.Add(time.Duration(i+1) * time.Second)
		o := &object{Name: l.name, Kind: l.kind, Core: l.core, yaml: l.yaml, defect: l.defect}
		if l.yaml != "" {
			cfgs, rejected, err := parse(l.yaml, ts)
			if err != nil {
				panic(fmt.Sprintf("c14 infrastructure: alphabet object %s does not decode: %v", l.name, err))
			}
			o.Configs, o.Rejected, o.RejectWhy = cfgs, rejected != "", rejected
		}
		if l.svcs != nil {
			f := l.svcs
			o.Services = func() ([]*model.Service, []*model.ServiceInstance) { return f(ts) }
		}
		o.Shape = l.kind
		if l.shape != "" {
			o.Shape = l.kind + "/" + l.shape
		}
		if l.defect != "" {
			o.Shape = l.kind + "!" + l.defect
		}
		alphabet = append(alphabet, o)
	}
}
