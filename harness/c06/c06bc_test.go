// C06 (b) and (c): the real model.XdsCache under every interleaving of generation, invalidation and
// insertion steps (incl. timestamp ties), and under every operation sequence with a 2-entry LRU.
// Ghost: every cached value records the data versions it was generated from (DESIGN A.8).
package c06

import (
	"fmt"
	"sort"
	"strings"
	"testing"
	"time"

	discovery "github.com/envoyproxy/go-control-plane/envoy/service/discovery/v3"

	"istio.io/istio/pilot/pkg/features"
	"istio.io/istio/pilot/pkg/model"
	"istio.io/istio/pkg/config/schema/kind"
	"istio.io/istio/pkg/util/sets"
	"istio.io/istio/pkg/verifshim/sched"
	"istio.io/istio/zz_verif/engine"
)

var cfgKeys = []model.ConfigKey{
	{Kind: kind.ServiceEntry, Name: "a", Namespace: "ns"},
	{Kind: kind.DestinationRule, Name: "b", Namespace: "ns"},
}

type entry struct {
	key  uint64
	deps []int
}

func (e entry) Type() string   { return model.EDSType }
func (e entry) Key() any       { return e.key }
func (e entry) Cacheable() bool { return true }
func (e entry) DependentConfigs() []model.ConfigHash {
	var out []model.ConfigHash
	for _, d := range e.deps {
		out = append(out, cfgKeys[d].HashCode())
	}
	return out
}

// a value's name encodes what it was generated from: "k<key>@<verA>.<verB>"
func mkValue(k uint64, src [2]int) *discovery.Resource {
	return &discovery.Resource{Name: fmt.Sprintf("k%d@%d.%d", k, src[0], src[1])}
}

func srcOf(r *discovery.Resource) (src [2]int) {
	var k int
	fmt.Sscanf(r.Name, "k%d@%d.%d", &k, &src[0], &src[1])
	return
}

// ---------------------------------------------------------------------------------------------
// (c) sequential operation sequences, small LRU

type cop struct {
	Kind string `json:"kind"` // write, stalewrite, save, get, inval, invalall, flush, tick
	Key  int    `json:"key,omitempty"`
	Cfg  int    `json:"cfg,omitempty"`
}

func (o cop) String() string {
	switch o.Kind {
	case "write", "get", "stalewrite":
		return fmt.Sprintf("%s(k%d)", o.Kind, o.Key)
	case "inval":
		return fmt.Sprintf("inval(c%d)", o.Cfg)
	}
	return o.Kind
}

// keys and their declared dependencies: k0 -> {cA}, k1 -> {cB}, k2 -> {cA,cB}
var keyDeps = [][]int{{0}, {1}, {0, 1}}

type cworld struct {
	cache model.XdsCache
	ver   [2]int
	// a writer that started earlier: its start time and the versions it read then
	savedStart time.Time
	savedVer   [2]int
	saved      bool
}

func newCWorld() *cworld {
	features.XDSCacheMaxSize = 2
	return &cworld{cache: model.NewXdsCache()}
}

func (w *cworld) apply(o cop) (key, desc string) {
	// every operation takes time: the clock is strictly monotonic across operations (a tie between a
	// writer's start and a later Clear would need two clock readings, separated by real work, to be equal)
	defer time.Sleep(time.Nanosecond)
	switch o.Kind {
	case "tick":
		time.Sleep(time.Nanosecond) // virtual clock of the bubble
	case "save":
		w.savedStart, w.savedVer, w.saved = time.Now(), w.ver, true
	case "write":
		e := entry{uint64(o.Key), keyDeps[o.Key]}
		w.cache.Add(e, &model.PushRequest{Start: time.Now()}, mkValue(e.key, w.ver))
	case "stalewrite":
		if !w.saved {
			return
		}
		e := entry{uint64(o.Key), keyDeps[o.Key]}
		w.cache.Add(e, &model.PushRequest{Start: w.savedStart}, mkValue(e.key, w.savedVer))
	case "get":
		e := entry{uint64(o.Key), keyDeps[o.Key]}
		if r := w.cache.Get(e); r != nil {
			src := srcOf(r)
			for _, d := range keyDeps[o.Key] {
				if src[d] < w.ver[d] {
					return "stale-after-clear", fmt.Sprintf("Get(k%d) returns %s although its dependency c%d is at version %d", o.Key, r.Name, d, w.ver[d])
				}
			}
		}
	case "inval":
		// the invalidator's real sequence: the data changes, then the cache is cleared
		w.ver[o.Cfg]++
		w.cache.Clear(sets.New(cfgKeys[o.Cfg]))
	case "invalall":
		w.ver[0]++
		w.ver[1]++
		w.cache.ClearAll()
	case "flush":
		model.VerifFlushXdsCache(w.cache)
	}
	return
}

var copAlphabet = func() []cop {
	out := []cop{{Kind: "save"}, {Kind: "flush"}, {Kind: "invalall"}}
	for k := range keyDeps {
		out = append(out, cop{Kind: "write", Key: k}, cop{Kind: "get", Key: k}, cop{Kind: "stalewrite", Key: k})
	}
	for c := range cfgKeys {
		out = append(out, cop{Kind: "inval", Cfg: c})
	}
	return out
}()

func replayC(t *testing.T, ops []cop) (key, desc string) {
	fail := engine.Bubble(t, func() {
		w := newCWorld()
		for _, o := range ops {
			if k, d := w.apply(o); k != "" {
				key, desc = k, d
				return
			}
		}
	})
	if fail != "" && key == "" {
		key, desc = "cache-panic", fail
	}
	return
}

func TestC06c(t *testing.T) {
	env := engine.GetEnv()
	res := engine.NewResult("C06", "c-lru-index")
	res.Rule = "every operation sequence up to the depth bound over {write(k) from current data, save a writer's start, stale write(k) with the saved start and data, get(k), invalidate(cfg) = data version++ then Clear, invalidate all, index flush} on the real XdsCache with PILOT_XDS_CACHE_SIZE=2, 3 keys with dependencies {cA},{cB},{cA,cB}; a Get must never return a value generated from a version of a declared dependency older than the current one; non-trivial = sequence containing an invalidation after a write of a dependent key"
	defer res.Write(t, env)
	type rp struct {
		Ops []cop `json:"ops"`
	}
	if env.Replay != "" {
		var r rp
		if err := engine.ReadReplay(env.Replay, &r); err != nil {
			t.Fatal(err)
		}
		if k, d := replayC(t, r.Ops); k != "" {
			res.Violate(k, d, r)
		}
		return
	}
	depth := 5
	if env.Thorough() {
		depth = 7
	}
	res.Bounds["depth"] = depth
	res.Bounds["alphabet"] = len(copAlphabet)
	var ord int64
	for n := 1; n <= depth; n++ {
		engine.Sequences(len(copAlphabet), n, func(_ int64, seq []int) bool {
			ord++
			if !env.Mine(ord) {
				return true
			}
			if env.Expired() {
				res.Cap(fmt.Sprintf("deadline at length %d", n))
				return false
			}
			// prune sequences that cannot matter: a sequence is kept only if it ends in a get
			if copAlphabet[seq[n-1]].Kind != "get" {
				return true
			}
			ops := make([]cop, n)
			names := make([]string, n)
			wrote, interesting := false, false
			for i, x := range seq {
				ops[i] = copAlphabet[x]
				names[i] = ops[i].String()
				if ops[i].Kind == "write" || ops[i].Kind == "stalewrite" {
					wrote = true
				}
				if wrote && (ops[i].Kind == "inval" || ops[i].Kind == "invalall") {
					interesting = true
				}
			}
			k, d := replayC(t, ops)
			res.Evaluations++
			res.Traces++
			res.Transitions += int64(n)
			if interesting {
				res.NontrivialCase(strings.Join(names, " "))
			}
			res.Outcome(k)
			if k != "" {
				res.Violate(k, d+" after "+strings.Join(names, " "), rp{ops})
			}
			if ord%300007 == 0 {
				res.Sample(strings.Join(names, " "))
			}
			return true
		})
	}
	res.States = res.Evaluations
	res.Sample("write(k2) save tick inval(c0) stalewrite(k2) get(k2)")
}

// ---------------------------------------------------------------------------------------------
// (b) interleavings of two generators and an invalidator at cache-operation boundaries

// A generator thread follows the callers' real sequences:
//   push flavour:    snap := published snapshot; start := now; Get; on miss Add(value(snap), Start=start)
//                    (AdsPushAll/ProxyUpdate: the request takes the snapshot, then StartPush stamps Start)
//   request flavour: (snap, start) := what the proxy recorded at its last push; Get; on miss Add
//   eds flavour:     start := now (push start); data := read live endpoints; Get; on miss Add(value(data))
// The invalidator follows initPushContext (build snapshot from the changed data; Clear; publish) or
// UpdateServiceEndpoints (change data + Clear atomically under the index lock).
type bscenario struct {
	Gens  []string `json:"generators"` // push | request | eds
	Inval string   `json:"invalidator"` // config | endpoints
}

func (b bscenario) String() string {
	return fmt.Sprintf("%v vs %s", b.Gens, b.Inval)
}

func runB(t *testing.T, sc bscenario, c *sched.Chooser) (vio [][2]string, trace []string, outcome string) {
	fail := engine.Bubble(t, func() {
		features.XDSCacheMaxSize = 100
		cache := model.NewXdsCache()
		live := [2]int{}      // the data itself (config store / endpoint index)
		published := [2]int{} // versions in the published snapshot
		e := entry{7, []int{0}}
		lastPush := struct {
			snap  [2]int
			start time.Time
		}{published, time.Now()}
		time.Sleep(time.Nanosecond)
		type thread struct {
			name  string
			steps []func()
			pc    int
		}
		var ths []*thread
		for gi, g := range sc.Gens {
			th := &thread{name: fmt.Sprintf("G%d(%s)", gi, g)}
			var snap [2]int
			var start time.Time
			hit := false
			get := func() {
				if r := cache.Get(e); r != nil {
					hit = true
					src := srcOf(r)
					if src[0] < snap[0] {
						vio = append(vio, [2]string{"older-state-for-newer-snapshot:" + g, fmt.Sprintf("%s generating for data version %d is served %s from the cache", th.name, snap[0], r.Name)})
					}
				}
			}
			add := func() {
				if !hit {
					cache.Add(e, &model.PushRequest{Start: start}, mkValue(e.key, snap))
				}
			}
			switch g {
			case "push":
				th.steps = []func(){func() { snap = published }, func() { start = time.Now() }, get, add}
			case "request":
				th.steps = []func(){func() { snap, start = lastPush.snap, lastPush.start }, get, add}
			case "eds":
				th.steps = []func(){func() { start = time.Now() }, func() { snap = live }, get, add}
			}
			ths = append(ths, th)
		}
		inv := &thread{name: "I(" + sc.Inval + ")"}
		var building [2]int
		switch sc.Inval {
		case "config":
			inv.steps = []func(){
				func() { live[0]++ },            // the store changes
				func() { building = live },      // InitContext reads it
				func() { cache.Clear(sets.New(cfgKeys[0])) }, // dropCacheForRequest
				func() { published = building }, // SetPushContext
				func() { lastPush.snap, lastPush.start = published, time.Now() }, // StartPush stamps the request
			}
		case "endpoints":
			inv.steps = []func(){func() { live[0]++; cache.Clear(sets.New(cfgKeys[0])) }}
		}
		ths = append(ths, inv)
		for {
			var en []*thread
			for _, th := range ths {
				if th.pc < len(th.steps) {
					en = append(en, th)
				}
			}
			if len(en) == 0 {
				break
			}
			k := 0
			if len(en) > 1 {
				k = c.Choose(len(en), "step", func(int) int { return 0 })
			}
			th := en[k]
			th.steps[th.pc]()
			time.Sleep(time.Nanosecond) // every step takes time: strictly monotonic clock
			th.pc++
			trace = append(trace, fmt.Sprintf("%s.%d", th.name, th.pc))
		}
		// final reader with the current snapshot
		if r := cache.Get(e); r != nil {
			if src := srcOf(r); src[0] < live[0] {
				vio = append(vio, [2]string{"stale-entry-survives:" + strings.Join(sc.Gens, "+") + ":" + sc.Inval, fmt.Sprintf("after everything finished the cache still serves %s, data is at version %d", r.Name, live[0])})
			}
			outcome = "cached:" + r.Name
		} else {
			outcome = "empty"
		}
	})
	if fail != "" {
		vio = append(vio, [2]string{"cache-panic", fail})
	}
	// classify by root cause: a push-flavour generator that read the snapshot before the new one was
	// published but stamped its start time after the invalidation (its stale value passes the token test)
	if len(vio) > 0 && sc.Inval == "config" {
		idx := func(step string) int {
			for i, s := range trace {
				if s == step {
					return i
				}
			}
			return -1
		}
		clearAt, pubAt := idx("I(config).3"), idx("I(config).4")
		for gi, g := range sc.Gens {
			if g != "push" {
				continue
			}
			snapAt, startAt := idx(fmt.Sprintf("G%d(push).1", gi)), idx(fmt.Sprintf("G%d(push).2", gi))
			if snapAt >= 0 && snapAt < pubAt && startAt > clearAt {
				for i := range vio {
					vio[i][0] = "model:push-flavour-generator:snapshot-read-before-publication+start-stamped-after-invalidation"
				}
			}
		}
	}
	return
}

func TestC06b(t *testing.T) {
	env := engine.GetEnv()
	res := engine.NewResult("C06", "b-invalidation-interleavings")
	res.Rule = "every interleaving, at cache-operation boundaries, of 1-2 generator threads (push / proxy-request / endpoint flavour, following the callers' real step order) and one invalidator (config push: data change, snapshot build, Clear, publish, stamp; or endpoint update: change+Clear atomically), under a strictly monotonic virtual clock, on the real XdsCache; non-trivial = interleaving in which a generator's Add is dropped or an entry is cleared"
	defer res.Write(t, env)
	type rp struct {
		Scenario bscenario `json:"scenario"`
		Choices  []int     `json:"choices"`
	}
	if env.Replay != "" {
		var r rp
		if err := engine.ReadReplay(env.Replay, &r); err != nil {
			t.Fatal(err)
		}
		vio, tr, out := runB(t, r.Scenario, sched.NewChooser(r.Choices))
		t.Logf("%v -> %s", tr, out)
		for _, v := range vio {
			res.Violate(v[0], v[1], r)
		}
		return
	}
	var scs []bscenario
	// generators are paired with the invalidator of the data they read: snapshot readers (push,
	// request) with config pushes, live-data readers (eds) with endpoint updates
	for _, a := range []string{"push", "request"} {
		scs = append(scs, bscenario{[]string{a}, "config"})
		for _, b := range []string{"push", "request"} {
			if b >= a {
				scs = append(scs, bscenario{[]string{a, b}, "config"})
			}
		}
	}
	scs = append(scs, bscenario{[]string{"eds"}, "endpoints"}, bscenario{[]string{"eds", "eds"}, "endpoints"}, bscenario{[]string{"eds", "eds", "eds"}, "endpoints"})
	res.Bounds["scenarios"] = len(scs)
	for i, sc := range scs {
		if !env.Mine(int64(i)) {
			continue
		}
		outcomes := map[string]bool{}
		st := sched.Explore(sched.ExploreOpts{Bound: -1, Deadline: env.Expired}, func(c *sched.Chooser, _ bool) bool {
			vio, tr, out := runB(t, sc, c)
			outcomes[out] = true
			res.Outcome(out)
			for _, v := range vio {
				res.Violate(v[0], v[1]+" in "+sc.String()+" schedule "+strings.Join(tr, " "), rp{sc, c.Choices()})
			}
			return true
		})
		if st.Capped != "" {
			res.Cap(st.Capped + " in " + sc.String())
		}
		res.Evaluations += st.Executions
		res.Traces += st.Executions
		res.Transitions += st.Points
		res.States++
		if len(outcomes) > 1 {
			res.NontrivialCase(sc.String())
		}
		if i%5 == 0 {
			var o []string
			for k := range outcomes {
				o = append(o, k)
			}
			sort.Strings(o)
			res.Sample(map[string]any{"scenario": sc.String(), "interleavings": st.Executions, "outcomes": o})
		}
	}
}
