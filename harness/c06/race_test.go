package c06

import (
	"fmt"
	"sync"
	"testing"
	"time"

	"istio.io/istio/pilot/pkg/features"
	"istio.io/istio/pilot/pkg/model"
	"istio.io/istio/pkg/util/sets"
	"istio.io/istio/zz_verif/engine"
)

// TestC06Race: free-running pass over the typed xDS cache for what the cooperative interleavings of
// part b and the sequences of part c cannot show - unsynchronised accesses inside the cache (LRU
// store, config index, eviction callbacks, token bookkeeping). Three threads run every combination of
// short programs over {Add, Get, Clear(config), ClearAll, index flush, Keys/Snapshot} on 3 keys with a
// 2-entry store; the binary is built with -race and a race report is the violation.
func TestC06Race(t *testing.T) {
	env := engine.GetEnv()
	res := engine.NewResult("C06", "f-cache-race-pass")
	res.Rule = "3 threads x every combination of 2-call programs over {Add(k), Get(k), Clear(cfg), ClearAll, index flush, Snapshot} on the real XdsCache (3 keys, store of 2 entries), run free under -race, repeated; a race report is a violation; non-trivial = combination with a writer and an invalidator"
	defer res.Write(t, env)
	reps := 3
	if env.Thorough() {
		reps = 30
	}
	res.Bounds["repetitions"] = reps
	type call struct {
		Kind string
		K    int
	}
	alphabet := []call{{"add", 0}, {"add", 2}, {"get", 0}, {"get", 2}, {"clear", 0}, {"clearall", 0}, {"flush", 0}, {"snapshot", 0}}
	var progs [][]call
	for _, a := range alphabet {
		for _, b := range alphabet {
			progs = append(progs, []call{a, b})
		}
	}
	run := func(c model.XdsCache, p []call) {
		for _, x := range p {
			e := entry{uint64(x.K), keyDeps[x.K]}
			switch x.Kind {
			case "add":
				c.Add(e, &model.PushRequest{Start: time.Now()}, mkValue(e.key, [2]int{}))
			case "get":
				_ = c.Get(e)
			case "clear":
				c.Clear(sets.New(cfgKeys[0]))
			case "clearall":
				c.ClearAll()
			case "flush":
				model.VerifFlushXdsCache(c)
			case "snapshot":
				_ = c.Snapshot()
				_ = c.Keys(model.EDSType)
			}
		}
	}
	has := func(p []call, kinds ...string) bool {
		for _, x := range p {
			for _, k := range kinds {
				if x.Kind == k {
					return true
				}
			}
		}
		return false
	}
	features.XDSCacheMaxSize = 2
	var ord int64
	for i, p1 := range progs {
		for j, p2 := range progs {
			if j < i {
				continue
			}
			// third thread: one fixed invalidator+writer mix per tier step, so that every pair meets both
			for k, p3 := range progs {
				if k < j || (!env.Thorough() && (i+j+k)%23 != 0) || (env.Thorough() && (i+j+k)%3 != 0) {
					continue
				}
				ord++
				if !env.Mine(ord) {
					continue
				}
				if env.Expired() {
					res.Cap("deadline")
					return
				}
				for r := 0; r < reps; r++ {
					c := model.NewXdsCache()
					var wg sync.WaitGroup
					for _, p := range [][]call{p1, p2, p3} {
						wg.Add(1)
						go func() {
							defer wg.Done()
							run(c, p)
						}()
					}
					wg.Wait()
					res.Evaluations++
				}
				res.States++
				res.Transitions += int64(reps * 6)
				all := append(append(append([]call{}, p1...), p2...), p3...)
				if has(all, "add") && has(all, "clear", "clearall") {
					res.NontrivialCase(fmt.Sprint(i, j, k))
				}
				res.Outcome(fmt.Sprintf("writer=%v invalidator=%v", has(all, "add"), has(all, "clear", "clearall")))
			}
		}
	}
	res.Traces = res.Evaluations
	res.Sample(map[string]any{"threads": [][]call{progs[1], progs[20], progs[40]}})
}
