package engine

import (
	"fmt"
	"os"
	"runtime"
	"runtime/debug"
	"sync"
	"testing"
	"testing/synctest"

	"istio.io/istio/pkg/verifshim/sched"
)

// Bubble runs f inside a fresh testing/synctest bubble (virtual clock, deterministic quiescence).
// A panic raised by the bubble machinery itself (goroutines left blocked when f returns) is returned
// as an error string instead of killing the worker.
func Bubble(t *testing.T, f func()) (failure string) {
	defer func() {
		if r := recover(); r != nil {
			failure = fmt.Sprint(r)
		}
	}()
	synctest.Test(t, func(*testing.T) { f() })
	return ""
}

// Interleave runs one execution of a multi-threaded scenario under the cooperative scheduler inside a
// bubble: setup builds the object under test and starts the threads with s.Go; after the schedule
// has run (to completion, deadlock or a stop requested by OnStep) final is called, still inside the
// bubble, on the root goroutine.
func Interleave(t *testing.T, c *sched.Chooser, setup func(s *sched.Sched), final func(s *sched.Sched, completed bool)) string {
	return Bubble(t, func() {
		s := sched.New(c)
		defer s.Close()
		setup(s)
		ok := s.Run()
		if !ok && s.Stopped {
			s.Abandon()
			final(s, false)
			return
		}
		final(s, ok)
	})
}

var gcPointInit sync.Once
var gcPointOn bool
var gcPointCalls int

// GCPoint makes garbage collection happen at points the harness decides instead of points the
// pacer decides (VERIF_GCPOINTS set by the driver): a collection stops the world, the goroutine that
// was running is put behind the others, and so the pacer's timing-dependent trigger would otherwise
// leak into the order in which the goroutines of a bubble run. The collector is switched off
// (a 4 GiB soft limit stays as a safety net) and run explicitly every `every` calls.
func GCPoint(every int) {
	gcPointInit.Do(func() {
		gcPointOn = os.Getenv("VERIF_GCPOINTS") != ""
		if gcPointOn {
			debug.SetGCPercent(-1)
			debug.SetMemoryLimit(4 << 30)
		}
	})
	if !gcPointOn {
		return
	}
	gcPointCalls++
	if every <= 1 || gcPointCalls%every == 0 {
		runtime.GC()
	}
}
