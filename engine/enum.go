package engine

// Product calls f with every index vector of the product of the given dimension sizes, in
// lexicographic order, together with its ordinal. f returns false to stop.
func Product(dims []int, f func(ord int64, idx []int) bool) int64 {
	for _, d := range dims {
		if d == 0 {
			return 0
		}
	}
	idx := make([]int, len(dims))
	var ord int64
	for {
		if !f(ord, idx) {
			return ord + 1
		}
		ord++
		i := len(dims) - 1
		for ; i >= 0; i-- {
			idx[i]++
			if idx[i] < dims[i] {
				break
			}
			idx[i] = 0
		}
		if i < 0 {
			return ord
		}
	}
}

// Sequences calls f with every sequence over [0,n) of length exactly k.
func Sequences(n, k int, f func(ord int64, seq []int) bool) int64 {
	dims := make([]int, k)
	for i := range dims {
		dims[i] = n
	}
	if k == 0 {
		f(0, nil)
		return 1
	}
	return Product(dims, f)
}

// Permutations calls f with every permutation of [0,n) (Heap's algorithm order is not used; the
// order is lexicographic so that an ordinal identifies a permutation).
func Permutations(n int, f func(ord int64, perm []int) bool) int64 {
	perm := make([]int, n)
	for i := range perm {
		perm[i] = i
	}
	var ord int64
	for {
		if !f(ord, perm) {
			return ord + 1
		}
		ord++
		// next lexicographic permutation
		i := n - 2
		for i >= 0 && perm[i] >= perm[i+1] {
			i--
		}
		if i < 0 {
			return ord
		}
		j := n - 1
		for perm[j] <= perm[i] {
			j--
		}
		perm[i], perm[j] = perm[j], perm[i]
		for l, r := i+1, n-1; l < r; l, r = l+1, r-1 {
			perm[l], perm[r] = perm[r], perm[l]
		}
	}
}

// LinearExtensions calls f with every interleaving of the given chains that keeps each chain's own
// order. An element is (chain, position).
func LinearExtensions(chainLens []int, f func(ord int64, order [][2]int) bool) int64 {
	pos := make([]int, len(chainLens))
	total := 0
	for _, l := range chainLens {
		total += l
	}
	cur := make([][2]int, 0, total)
	var ord int64
	stop := false
	var rec func()
	rec = func() {
		if stop {
			return
		}
		if len(cur) == total {
			if !f(ord, cur) {
				stop = true
			}
			ord++
			return
		}
		for c := range chainLens {
			if pos[c] < chainLens[c] {
				cur = append(cur, [2]int{c, pos[c]})
				pos[c]++
				rec()
				pos[c]--
				cur = cur[:len(cur)-1]
			}
		}
	}
	rec()
	return ord
}

// Subsets calls f with every subset of [0,n) as a bitmask.
func Subsets(n int, f func(mask int) bool) {
	for m := 0; m < 1<<n; m++ {
		if !f(m) {
			return
		}
	}
}

// CopyInts copies a slice (enumerators reuse their buffers).
func CopyInts(a []int) []int { return append([]int(nil), a...) }
