// Package engine is the shared part of the /verif harnesses: worker protocol (tier, shard, output
// file, replay), result accumulation, enumerators and bubble helpers. It is compiled into the istio
// module through the build overlay (see /verif/lib/vbuild.py).
package engine

import (
	"crypto/sha256"
	"encoding/hex"
	"encoding/json"
	"fmt"
	"os"
	"sort"
	"strconv"
	"strings"
	"sync"
	"testing"
	"time"
)

// Violation is one property violation with everything needed to replay it.
type Violation struct {
	// Key identifies the failing input / call site / history; known_findings.json matches on it.
	Key    string `json:"key"`
	Desc   string `json:"desc"`
	Replay any    `json:"replay"`
	Count  int64  `json:"count"`
}

// Result is what one worker reports; the driver merges the shards.
type Result struct {
	mu           sync.Mutex
	Property     string           `json:"property"`
	Part         string           `json:"part,omitempty"`
	Evaluations  int64            `json:"evaluations"`
	Nontrivial   int64            `json:"distinct_nontrivial"`
	States       int64            `json:"states"`
	Transitions  int64            `json:"transitions"`
	Traces       int64            `json:"traces_validated_against_impl"`
	Outcomes     map[string]int64 `json:"outcomes"`
	Samples      []any            `json:"samples"`
	Violations   []*Violation     `json:"violations"`
	Exhaustive   bool             `json:"exhaustive"`
	Caps         []string         `json:"caps,omitempty"`
	Bounds       map[string]any   `json:"bounds,omitempty"`
	Counters     map[string]int64 `json:"counters,omitempty"`
	Rule         string           `json:"rule,omitempty"`
	Infra        string           `json:"infra_error,omitempty"`
	nontrivialOf map[[16]byte]struct{}
	vioByKey     map[string]*Violation
}

// Env is the worker's view of the invocation.
type Env struct {
	Tier      string
	Shard, Of int
	Out       string
	Replay    string
	Seed      int64
	deadline  time.Time
}

func GetEnv() *Env {
	e := &Env{Tier: os.Getenv("VERIF_TIER"), Of: 1, Out: os.Getenv("VERIF_OUT"), Replay: os.Getenv("VERIF_REPLAY")}
	if e.Tier == "" {
		e.Tier = "quick"
	}
	if s := os.Getenv("VERIF_SHARD"); s != "" {
		p := strings.Split(s, "/")
		e.Shard, _ = strconv.Atoi(p[0])
		e.Of, _ = strconv.Atoi(p[1])
	}
	e.Seed, _ = strconv.ParseInt(os.Getenv("VERIF_SEED"), 10, 64)
	if s := os.Getenv("VERIF_DEADLINE_S"); s != "" {
		n, _ := strconv.Atoi(s)
		e.deadline = time.Now().Add(time.Duration(n) * time.Second)
	}
	return e
}

func (e *Env) Thorough() bool { return e.Tier == "thorough" }

// Mine deals case i to this worker.
func (e *Env) Mine(i int64) bool { return e.Of <= 1 || int(i%int64(e.Of)) == e.Shard }

// Expired reports whether the internal real-time budget is used up (exploration stops, exit 0,
// exhaustive=false).
func (e *Env) Expired() bool { return !e.deadline.IsZero() && time.Now().After(e.deadline) }

func NewResult(property, part string) *Result {
	return &Result{
		Property: property, Part: part, Outcomes: map[string]int64{}, Exhaustive: true,
		Bounds: map[string]any{}, Counters: map[string]int64{}, nontrivialOf: map[[16]byte]struct{}{}, vioByKey: map[string]*Violation{},
	}
}

// Outcome counts a distinct observed outcome (vacuity indicator).
func (r *Result) Outcome(k string) {
	r.mu.Lock()
	if len(r.Outcomes) < 4096 || r.Outcomes[k] > 0 {
		r.Outcomes[k]++
	}
	r.mu.Unlock()
}

// NontrivialCase records a case that is non-trivial by the check's stated rule; distinct by key.
func (r *Result) NontrivialCase(key string) {
	h := Key128(key) // the set only counts distinct cases: 128 bits of a hash stand for the key
	r.mu.Lock()
	if _, ok := r.nontrivialOf[h]; !ok {
		r.nontrivialOf[h] = struct{}{}
		r.Nontrivial++
	}
	r.mu.Unlock()
}

// Key128 is a 128-bit digest of a canonical state or case description, for visited sets that would
// otherwise keep millions of long strings alive.
func Key128(s string) [16]byte {
	sum := sha256.Sum256([]byte(s))
	var k [16]byte
	copy(k[:], sum[:16])
	return k
}

func (r *Result) Count(name string, n int64) {
	r.mu.Lock()
	r.Counters[name] += n
	r.mu.Unlock()
}

// Sample keeps up to 6 cases written out.
func (r *Result) Sample(v any) {
	r.mu.Lock()
	if len(r.Samples) < 6 {
		r.Samples = append(r.Samples, v)
	}
	r.mu.Unlock()
}

// Violate records a violation; one entry per key (first replay kept).
func (r *Result) Violate(key, desc string, replay any) {
	r.mu.Lock()
	defer r.mu.Unlock()
	if v, ok := r.vioByKey[key]; ok {
		v.Count++
		return
	}
	if len(r.Violations) >= 200 {
		return
	}
	v := &Violation{Key: key, Desc: desc, Replay: replay, Count: 1}
	r.vioByKey[key] = v
	r.Violations = append(r.Violations, v)
}

func (r *Result) Cap(what string) {
	r.mu.Lock()
	r.Exhaustive = false
	r.Caps = append(r.Caps, what)
	r.mu.Unlock()
}

// Write stores the result where the driver expects it (or prints it when run by hand).
func (r *Result) Write(t testing.TB, e *Env) {
	sort.Slice(r.Violations, func(i, j int) bool { return r.Violations[i].Key < r.Violations[j].Key })
	b, err := json.MarshalIndent(r, "", " ")
	if err != nil {
		t.Fatalf("marshal result: %v", err)
	}
	if e.Out == "" {
		fmt.Println(string(b))
		return
	}
	if err := os.WriteFile(e.Out, b, 0o644); err != nil {
		t.Fatalf("write result: %v", err)
	}
}

// Hash is a short stable digest for state keys and replay file names.
func Hash(parts ...string) string {
	h := sha256.New()
	for _, p := range parts {
		h.Write([]byte(p))
		h.Write([]byte{0})
	}
	return hex.EncodeToString(h.Sum(nil))[:16]
}

// ReadReplay loads the replay description of a violation file written by the driver.
func ReadReplay(path string, into any) error {
	b, err := os.ReadFile(path)
	if err != nil {
		return err
	}
	var wrap struct {
		Replay json.RawMessage `json:"replay"`
	}
	if err := json.Unmarshal(b, &wrap); err != nil {
		return err
	}
	return json.Unmarshal(wrap.Replay, into)
}
