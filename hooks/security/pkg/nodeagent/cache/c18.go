//go:build verif

package cache

import (
	"time"

	"istio.io/istio/pkg/security"
)

// VerifRotateTime exposes the renewal-delay computation.
func VerifRotateTime(secret security.SecretItem, graceRatio, jitter float64) time.Duration {
	return rotateTime(secret, graceRatio, jitter)
}
