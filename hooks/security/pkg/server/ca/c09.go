//go:build verif

package ca

// VerifNodeAuthorizersSynced reports whether the server has a node authorizer (CA_TRUSTED_NODE_ACCOUNTS
// configured), at least one cluster was added to it, and the pod informers of every cluster have synced.
// Used by the C09 harness instead of sleeping.
func (s *Server) VerifNodeAuthorizersSynced() bool {
	if s.nodeAuthorizer == nil {
		return false
	}
	all := s.nodeAuthorizer.component.All()
	if len(all) == 0 {
		return false
	}
	for _, c := range all {
		if !c.HasSynced() {
			return false
		}
	}
	return true
}
