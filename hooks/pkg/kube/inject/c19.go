//go:build verif

package inject

import (
	corev1 "k8s.io/api/core/v1"
	metav1 "k8s.io/apimachinery/pkg/apis/meta/v1"
)

// VerifInjectRequired exports the injection decision cascade for the C19 harness (add-only hook).
func VerifInjectRequired(ignored []string, config *Config, podSpec *corev1.PodSpec, metadata metav1.ObjectMeta) bool {
	return injectRequired(ignored, config, podSpec, metadata)
}
