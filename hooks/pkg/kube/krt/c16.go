//go:build verif

package krt

// VerifRecoverHandlers (C16) returns a view of c on which every registered batch handler - krt's own
// internal ones included - runs under recover: a panic inside a handler is handed to onPanic instead
// of killing the process, so that the exploration can record it and go on. Everything else (uid,
// name, List, GetKey, indexes) is c's.
func VerifRecoverHandlers[T any](c Collection[T], onPanic func(recovered any)) Collection[T] {
	return verifRecover[T]{internalCollection: c.(internalCollection[T]), onPanic: onPanic}
}

type verifRecover[T any] struct {
	internalCollection[T]
	onPanic func(recovered any)
}

func (v verifRecover[T]) RegisterBatch(f func(o []Event[T]), runExistingState bool) HandlerRegistration {
	return v.internalCollection.RegisterBatch(func(o []Event[T]) {
		defer func() {
			if r := recover(); r != nil {
				v.onPanic(r)
			}
		}()
		f(o)
	}, runExistingState)
}

func (v verifRecover[T]) Register(f func(o Event[T])) HandlerRegistration {
	return registerHandlerAsBatched[T](v, f)
}
