//go:build verif

package model

// VerifFlushXdsCache runs the index clean-up that XdsCache.Run performs on a timer.
func VerifFlushXdsCache(c XdsCache) {
	if x, ok := c.(XdsCacheImpl); ok {
		x.cds.Flush()
		x.eds.Flush()
		x.rds.Flush()
		x.sds.Flush()
	}
}
