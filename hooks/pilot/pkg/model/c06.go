//go:build verif

package model

// VerifFlushXdsCache runs the index clean-up that XdsCache.Run performs on a timer.
func VerifFlushXdsCache(c XdsCache) {
	if x, ok := c.(XdsCacheImpl); ok {
		x.cds.Flush()
		x.eds.Flush()
		x.rds.Flush()
		x.sds.Flush()
	}
}

// VerifSetEndpointIndexCache makes the endpoint index invalidate the given cache in step with shard
// changes. pilot/test/xds.NewFakeDiscoveryServer builds its DiscoveryServer (and the cache its
// generators read) from one Environment and then swaps in the Environment of the config generator
// test, whose endpoint index clears a different cache object; production (bootstrap) uses one cache
// for both. The harness restores the production wiring with this.
func VerifSetEndpointIndexCache(e *EndpointIndex, c XdsCache) {
	e.mu.Lock()
	e.cache = c
	e.mu.Unlock()
}
