//go:build verif

package model

// VerifInitAuthenticationPolicies is initAuthenticationPolicies (C10): the authentication-policy
// index a push context builds from the environment's config store.
func VerifInitAuthenticationPolicies(env *Environment) *AuthenticationPolicies {
	return initAuthenticationPolicies(env)
}
