//go:build verif

package model

// VerifResetJwksChannels re-creates the package-level channels the JwksResolver refresher selects on.
// Inside a testing/synctest bubble a goroutine blocked on a channel created outside the bubble is not
// durably blocked, which would stall the virtual clock; the harness calls this first thing in a bubble.
func VerifResetJwksChannels() {
	closeChan = make(chan bool)
	jwksuriChannel = make(chan jwtKey, 5)
}
