//go:build verif

package ambient

// C10 hooks: export the ambient PeerAuthentication conversion and run it through the package's own
// collection glue (PolicyCollections, buildWorkloadPolicies, fetchPeerAuthentications) on static
// krt collections, so that no Kubernetes client is needed.

import (
	meshconfig "istio.io/api/mesh/v1alpha1"
	securityclient "istio.io/client-go/pkg/apis/security/v1"
	"istio.io/istio/pilot/pkg/model"
	"istio.io/istio/pkg/kube/krt"
	"istio.io/istio/pkg/workloadapi/security"
)

// VerifConvertPeerAuthentication is convertPeerAuthentication.
func VerifConvertPeerAuthentication(rootNamespace string, cfg, nsCfg, rootCfg *securityclient.PeerAuthentication) *security.Authorization {
	return convertPeerAuthentication(rootNamespace, cfg, nsCfg, rootCfg)
}

// VerifConvertedSelectorPeerAuthentications is convertedSelectorPeerAuthentications.
func VerifConvertedSelectorPeerAuthentications(rootNamespace string, configs []*securityclient.PeerAuthentication) []string {
	return convertedSelectorPeerAuthentications(rootNamespace, configs)
}

// VerifStaticStrictPolicyName is the name of the static strict policy.
const VerifStaticStrictPolicyName = staticStrictPolicyName

// VerifWorkload describes a workload for VerifPeerAuthPolicies.
type VerifWorkload struct {
	Namespace string
	Labels    map[string]string
}

// VerifPeerAuthPolicies feeds the given PeerAuthentication objects to the real PolicyCollections and
// returns (1) every policy the index would serve to node proxies and (2), per workload, the policy
// keys that buildWorkloadPolicies attaches to it.
func VerifPeerAuthPolicies(rootNamespace string, pas []*securityclient.PeerAuthentication, wls []VerifWorkload) ([]model.WorkloadAuthorization, [][]string) {
	stop := make(chan struct{})
	defer close(stop)
	opts := krt.NewOptionsBuilder(stop, "verif-c10", nil)
	peerAuths := krt.NewStaticCollection[*securityclient.PeerAuthentication](nil, pas, opts.WithName("PeerAuthentications")...)
	authz := krt.NewStaticCollection[*securityclient.AuthorizationPolicy](nil, nil, opts.WithName("AuthorizationPolicies")...)
	waypoints := krt.NewStaticCollection[Waypoint](nil, nil, opts.WithName("Waypoints")...)
	meshCfg := &MeshConfig{MeshConfig: &meshconfig.MeshConfig{RootNamespace: rootNamespace}}
	mesh := krt.NewStatic(meshCfg, true, opts.WithName("MeshConfig")...)
	authzDerived, all := PolicyCollections(authz, peerAuths, mesh, waypoints, opts, FeatureFlags{})
	all.WaitUntilSynced(stop)
	authzDerived.WaitUntilSynced(stop)
	byNs := krt.NewNamespaceIndex(peerAuths)
	keys := make([][]string, 0, len(wls))
	for _, w := range wls {
		keys = append(keys, buildWorkloadPolicies(krt.TestingDummyContext{}, authzDerived, byNs, meshCfg, w.Labels, w.Namespace))
	}
	return all.List(), keys
}
