//go:build verif

package ambient

// C10 hooks: export the ambient PeerAuthentication conversion and run it through the package's own
// collection glue (PolicyCollections, buildWorkloadPolicies, fetchPeerAuthentications) on static
// krt collections, so that no Kubernetes client is needed.

import (
	corev1 "k8s.io/api/core/v1"
	discovery "k8s.io/api/discovery/v1"
	metav1 "k8s.io/apimachinery/pkg/apis/meta/v1"
	gatewayv1 "sigs.k8s.io/gateway-api/apis/v1"

	meshconfig "istio.io/api/mesh/v1alpha1"
	networkingclient "istio.io/client-go/pkg/apis/networking/v1"
	securityclient "istio.io/client-go/pkg/apis/security/v1"
	"istio.io/istio/pilot/pkg/model"
	"istio.io/istio/pkg/kube/krt"
	"istio.io/istio/pkg/workloadapi/security"
)

// VerifConvertPeerAuthentication is convertPeerAuthentication.
func VerifConvertPeerAuthentication(rootNamespace string, cfg, nsCfg, rootCfg *securityclient.PeerAuthentication) *security.Authorization {
	return convertPeerAuthentication(rootNamespace, cfg, nsCfg, rootCfg)
}

// VerifConvertedSelectorPeerAuthentications is convertedSelectorPeerAuthentications.
func VerifConvertedSelectorPeerAuthentications(rootNamespace string, configs []*securityclient.PeerAuthentication) []string {
	return convertedSelectorPeerAuthentications(rootNamespace, configs)
}

// VerifStaticStrictPolicyName is the name of the static strict policy.
const VerifStaticStrictPolicyName = staticStrictPolicyName

// VerifWorkload describes a workload for VerifPeerAuthPolicies.
type VerifWorkload struct {
	Namespace string
	Labels    map[string]string
}

// VerifPeerAuthPolicies feeds the given PeerAuthentication objects to the real PolicyCollections and
// returns (1) every policy the index would serve to node proxies and (2), per workload, the policy
// keys that buildWorkloadPolicies attaches to it.
func VerifPeerAuthPolicies(rootNamespace string, pas []*securityclient.PeerAuthentication, wls []VerifWorkload) ([]model.WorkloadAuthorization, [][]string) {
	stop := make(chan struct{})
	defer close(stop)
	opts := krt.NewOptionsBuilder(stop, "verif-c10", nil)
	peerAuths := krt.NewStaticCollection[*securityclient.PeerAuthentication](nil, pas, opts.WithName("PeerAuthentications")...)
	authz := krt.NewStaticCollection[*securityclient.AuthorizationPolicy](nil, nil, opts.WithName("AuthorizationPolicies")...)
	waypoints := krt.NewStaticCollection[Waypoint](nil, nil, opts.WithName("Waypoints")...)
	meshCfg := &MeshConfig{MeshConfig: &meshconfig.MeshConfig{RootNamespace: rootNamespace}}
	mesh := krt.NewStatic(meshCfg, true, opts.WithName("MeshConfig")...)
	authzDerived, all := PolicyCollections(authz, peerAuths, mesh, waypoints, opts, FeatureFlags{})
	all.WaitUntilSynced(stop)
	authzDerived.WaitUntilSynced(stop)
	byNs := krt.NewNamespaceIndex(peerAuths)
	keys := make([][]string, 0, len(wls))
	for _, w := range wls {
		keys = append(keys, buildWorkloadPolicies(krt.TestingDummyContext{}, authzDerived, byNs, meshCfg, w.Labels, w.Namespace))
	}
	return all.List(), keys
}

// ---- live graph (C10 part c): the same collections, kept running while PeerAuthentication objects
// arrive, change and disappear. Everything downstream of the informers is the package's own code:
// PolicyCollections, BuildNetworkCollections and Builder.WorkloadsCollection (pod workload builder ->
// buildWorkloadPolicies -> fetchPeerAuthentications) with krt dependency tracking; the informers
// themselves are replaced by static krt collections that emit the same add/update/delete events.

// VerifPeerAuthGraph is a running ambient policy/workload graph over one pod.
type VerifPeerAuthGraph struct {
	stop      chan struct{}
	peerAuths krt.StaticCollection[*securityclient.PeerAuthentication]
	all       krt.Collection[model.WorkloadAuthorization]
	workloads krt.Collection[model.WorkloadInfo]
}

// VerifNewPeerAuthGraph starts the graph with the given objects already present.
func VerifNewPeerAuthGraph(rootNamespace string, initial []*securityclient.PeerAuthentication, wl VerifWorkload) *VerifPeerAuthGraph {
	g := &VerifPeerAuthGraph{stop: make(chan struct{})}
	opts := krt.NewOptionsBuilder(g.stop, "verif-c10-live", nil)
	g.peerAuths = krt.NewStaticCollection[*securityclient.PeerAuthentication](nil, initial, opts.WithName("PeerAuthentications")...)
	authz := krt.NewStaticCollection[*securityclient.AuthorizationPolicy](nil, nil, opts.WithName("AuthorizationPolicies")...)
	waypoints := krt.NewStaticCollection[Waypoint](nil, nil, opts.WithName("Waypoints")...)
	meshCfg := &MeshConfig{MeshConfig: &meshconfig.MeshConfig{RootNamespace: rootNamespace}}
	mesh := krt.NewStatic(meshCfg, true, opts.WithName("MeshConfig")...)
	authzDerived, all := PolicyCollections(authz, g.peerAuths, mesh, waypoints, opts, FeatureFlags{})
	g.all = all

	namespaces := krt.NewStaticCollection[*corev1.Namespace](nil, []*corev1.Namespace{
		{ObjectMeta: metav1.ObjectMeta{Name: rootNamespace}},
		{ObjectMeta: metav1.ObjectMeta{Name: wl.Namespace}},
	}, opts.WithName("Namespaces")...)
	gateways := krt.NewStaticCollection[*gatewayv1.Gateway](nil, nil, opts.WithName("Gateways")...)
	options := Options{SystemNamespace: rootNamespace, ClusterID: "c1", DomainSuffix: "cluster.local"}
	b := Builder{
		DomainSuffix: options.DomainSuffix,
		ClusterID:    options.ClusterID,
		Networks:     BuildNetworkCollections(namespaces, gateways, options, opts),
	}
	pod := &corev1.Pod{
		ObjectMeta: metav1.ObjectMeta{Name: "pod1", Namespace: wl.Namespace, Labels: wl.Labels, UID: "pod1-uid"},
		Spec:       corev1.PodSpec{NodeName: "node1", ServiceAccountName: "sa1"},
		Status: corev1.PodStatus{
			Phase:      corev1.PodRunning,
			PodIP:      "10.1.1.1",
			PodIPs:     []corev1.PodIP{{IP: "10.1.1.1"}},
			Conditions: []corev1.PodCondition{{Type: corev1.PodReady, Status: corev1.ConditionTrue}},
		},
	}
	g.workloads = b.WorkloadsCollection(
		krt.NewStaticCollection[*corev1.Pod](nil, []*corev1.Pod{pod}, opts.WithName("Pods")...),
		krt.NewStaticCollection[Node](nil, nil, opts.WithName("Nodes")...),
		mesh,
		authzDerived,
		krt.NewNamespaceIndex(g.peerAuths),
		waypoints,
		krt.NewStaticCollection[model.ServiceInfo](nil, nil, opts.WithName("WorkloadServices")...),
		krt.NewStaticCollection[*networkingclient.WorkloadEntry](nil, nil, opts.WithName("WorkloadEntries")...),
		krt.NewStaticCollection[*networkingclient.ServiceEntry](nil, nil, opts.WithName("ServiceEntries")...),
		krt.NewStaticCollection[*discovery.EndpointSlice](nil, nil, opts.WithName("EndpointSlices")...),
		namespaces,
		opts,
	)
	return g
}

// Set creates or replaces a PeerAuthentication (informer add / update event).
func (g *VerifPeerAuthGraph) Set(pa *securityclient.PeerAuthentication) { g.peerAuths.UpdateObject(pa) }

// Delete removes a PeerAuthentication (informer delete event).
func (g *VerifPeerAuthGraph) Delete(namespace, name string) {
	g.peerAuths.DeleteObject(namespace + "/" + name)
}

// Synced reports whether the derived collections have processed their initial state.
func (g *VerifPeerAuthGraph) Synced() bool { return g.all.HasSynced() && g.workloads.HasSynced() }

// Snapshot returns what node proxies would be sent now: every policy, and per workload uid the
// policy references of the workload.
func (g *VerifPeerAuthGraph) Snapshot() ([]model.WorkloadAuthorization, map[string][]string) {
	refs := map[string][]string{}
	for _, w := range g.workloads.List() {
		refs[w.Workload.GetUid()] = append([]string(nil), w.Workload.GetAuthorizationPolicies()...)
	}
	return g.all.List(), refs
}

// Close stops every collection of the graph.
func (g *VerifPeerAuthGraph) Close() { close(g.stop) }
