//go:build verif

package xds

import (
	"time"

	"go.uber.org/atomic"

	"istio.io/istio/pilot/pkg/model"
)

// VerifDebounce runs the real debounce loop (blocking until stop is closed).
func VerifDebounce(ch chan *model.PushRequest, stop <-chan struct{}, after, max time.Duration, edsDebounce bool,
	pushFn func(req *model.PushRequest), updateSent *atomic.Int64,
) {
	debounce(ch, stop, DebounceOptions{DebounceAfter: after, debounceMax: max, enableEDSDebounce: edsDebounce}, pushFn, updateSent)
}

// VerifDoSendPushes runs the real push dispatcher loop.
func VerifDoSendPushes(stop <-chan struct{}, semaphore chan struct{}, queue *PushQueue) {
	doSendPushes(stop, semaphore, queue)
}

// VerifNewConnection builds a bare connection on the given stream.
func VerifNewConnection(peer string, stream DiscoveryStream, id string) *Connection {
	c := newConnection(peer, stream)
	c.SetID(id)
	return c
}

// VerifEventRequest / VerifEventDone open an Event taken from a connection's push channel.
func VerifEventRequest(e any) *model.PushRequest { return e.(*Event).pushRequest }
func VerifEventDone(e any)                       { e.(*Event).done() }

// VerifQueueState exposes the queue's bookkeeping for canonical state keys.
func VerifQueueState(p *PushQueue) (queue []*Connection, pending, processing map[*Connection]*model.PushRequest, shuttingDown bool) {
	p.cond.L.Lock()
	defer p.cond.L.Unlock()
	queue = append([]*Connection(nil), p.queue...)
	pending = map[*Connection]*model.PushRequest{}
	for k, v := range p.pending {
		pending[k] = v
	}
	processing = map[*Connection]*model.PushRequest{}
	for k, v := range p.processing {
		processing[k] = v
	}
	return queue, pending, processing, p.shuttingDown
}
