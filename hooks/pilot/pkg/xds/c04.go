//go:build verif

package xds

import (
	discovery "github.com/envoyproxy/go-control-plane/envoy/service/discovery/v3"

	"istio.io/istio/pilot/pkg/model"
)

// VerifNewDeltaConnection builds a bare delta connection.
func VerifNewDeltaConnection(peer string, stream DeltaDiscoveryStream, id string) *Connection {
	c := newDeltaConnection(peer, stream)
	c.SetID(id)
	return c
}

func VerifSetProxy(c *Connection, p *model.Proxy) { c.proxy = p }

func VerifShouldRespondDelta(c *Connection, r *discovery.DeltaDiscoveryRequest) bool {
	return shouldRespondDelta(c, r)
}

func VerifSendDelta(c *Connection, r *discovery.DeltaDiscoveryResponse) error {
	return c.sendDelta(r, nil)
}
