//go:build verif

package xds

import (
	core "github.com/envoyproxy/go-control-plane/envoy/config/core/v3"

	"istio.io/istio/pilot/pkg/model"
)

// VerifInitProxy turns an xDS node into a fully initialised proxy the way a new ADS connection does
// (initConnection): initProxyMetadata, cluster alias, authorize (which derives VerifiedIdentity from
// the authenticated identities, nil = plaintext port), then initializeProxy = computeProxyState +
// DiscoverIPMode + generator selection. Left out: registering the connection and
// WorkloadEntryController.OnConnect (auto-registration), which need a stream.
func (s *DiscoveryServer) VerifInitProxy(node *core.Node, identities []string) (*model.Proxy, error) {
	proxy, err := s.initProxyMetadata(node)
	if err != nil {
		return nil, err
	}
	if alias, exists := s.ClusterAliases[proxy.Metadata.ClusterID]; exists {
		proxy.Metadata.ClusterID = alias
	}
	proxy.LastPushContext = s.globalPushContext()
	con := &Connection{node: node, proxy: proxy}
	if err := s.authorize(con, identities); err != nil {
		return nil, err
	}
	s.computeProxyState(proxy, nil)
	proxy.DiscoverIPMode()
	proxy.WatchedResources = map[string]*model.WatchedResource{}
	if proxy.Metadata.Generator != "" {
		proxy.XdsResourceGenerator = s.Generators[proxy.Metadata.Generator]
	}
	return proxy, nil
}

// VerifGenerate selects the generator as pushXds does (findGenerator) and runs it.
func (s *DiscoveryServer) VerifGenerate(proxy *model.Proxy, w *model.WatchedResource, req *model.PushRequest) (model.Resources, model.XdsLogDetails, error) {
	gen := s.findGenerator(w.TypeUrl, &Connection{proxy: proxy})
	if gen == nil {
		return nil, model.DefaultXdsLogDetails, nil
	}
	return gen.Generate(proxy, w, req)
}
