//go:build verif

package endpoints

import (
	"istio.io/istio/pilot/pkg/model"
	"istio.io/istio/pkg/config"
)

// VerifCheckMtlsEnabled is newMtlsChecker(...).checkMtlsEnabled(ep, isWaypoint) (C10): the client-side
// decision whether an endpoint is addressed with automatic mutual TLS.
func VerifCheckMtlsEnabled(push *model.PushContext, authnPolicies model.PeerAuthnPolicies, svcPort int, dr *config.Config, subset string,
	ep *model.IstioEndpoint, isWaypoint bool,
) bool {
	return newMtlsChecker(push, authnPolicies, svcPort, dr, subset).checkMtlsEnabled(ep, isWaypoint)
}
