"""Registry of checks: one JSON fragment per property under lib/checks/<id>.json:
{"level": "model_checking"|"exploration"|..., "parts": [{"name","group","test","shards":{"quick":n,"thorough":n},
 "deadline":{"quick":s,"thorough":s}, "thorough_only":bool, "env":{...}}], "assumptions": [...],
 "meta": {"text","design_ref","note","technique"}}"""
import glob
import json
import os

CHECKS = {}
for _f in sorted(glob.glob(os.path.join(os.path.dirname(os.path.abspath(__file__)), "checks", "C*.json"))):
    try:
        _c = json.load(open(_f))
        _c["parts"], _c["level"], _c["meta"]
    except Exception as _ex:  # a fragment being edited must not break the other checks
        import sys
        sys.stderr.write("registry: skipping %s: %s\n" % (_f, _ex))
        continue
    for _p in _c["parts"]:
        _p.setdefault("shards", {"quick": 1, "thorough": 1})
        _p.setdefault("deadline", {"quick": 240, "thorough": 2400})
    CHECKS[os.path.basename(_f)[:-5]] = _c
