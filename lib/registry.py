"""Registry of checks: property id -> parts (group binary, test function, shards, deadlines)."""

def part(name, group, test, q=1, t=None, dq=240, dt=2400, **kw):
    d = {"name": name, "group": group, "test": test, "shards": {"quick": q, "thorough": t or q}, "deadline": {"quick": dq, "thorough": dt}}
    d.update(kw)
    return d

CHECKS = {
    "C13": {
        "level": "model_checking",
        "parts": [part("a-interleavings", "shard", "TestC13a", q=16, t=16)],
        "assumptions": [
            "scheduling points are the lock acquisitions of endpointshards.go (sync shim); unsynchronised accesses are the business of a separate free-running -race pass",
            "sequential consistency between scheduling points (no weak-memory reorderings)",
        ],
    },
}
