from registry import CHECKS
ALL_IDS = ["C%02d" % i for i in range(1, 21)]
NOT_APPLICABLE = {}
META = {k: v["meta"] for k, v in CHECKS.items()}
