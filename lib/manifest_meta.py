ALL_IDS = ["C%02d" % i for i in range(1, 21)]
NOT_APPLICABLE = {}
META = {
    "C13": {
        "text": "Every interleaving (at lock acquisitions, preemption-bounded) of 2-3 registry threads calling the real EndpointIndex on one forced-collision service is checked against the set of sequential orders of the same calls run on the real code; plus exhaustive input product for EDS membership. This is the level at which the property's 'as if in some sequential order' clause can be decided: it quantifies over schedules.",
        "design_ref": "DESIGN.md section 4 C13",
        "note": "Trusted: the cooperative scheduler + sync shim (scheduling points = lock acquisitions of endpointshards.go), testing/synctest quiescence, sequential consistency between points; bounds: <=3 threads, <=2 calls per thread, preemption bound 2 (quick) / 3 (thorough).",
        "technique": "stateless model checking of the implementation: preemption-bounded DFS over thread interleavings under a controlled scheduler, linearizability oracle by brute force over sequential orders",
    },
}
