"""Build pipeline for the istio model-checking harnesses (see DESIGN.md section 2.5).

Everything the harnesses add to istio is supplied through `go build -overlay`:
  * /verif/engine/*.go            -> /repo/zz_verif/engine/
  * /verif/harness/<group>/*.go   -> /repo/zz_verif/<group>/
  * /verif/shims/<name>/*.go      -> /repo/pkg/verifshim/<name>/
  * /verif/hooks/<pkg path>/*.go  -> /repo/<pkg path>/zz_verif_<file>   (//go:build verif, add-only)
  * import-rewritten copies of named istio files (sync -> scheduling shim), regenerated from /repo's
    working tree on every run
  * GOROOT/src/runtime/rand.go    -> patched copy (deterministic map seeds, goroutine id accessor)
/repo itself is never written.
"""
import json
import os
import re
import subprocess
import sys
import time

VERIF = os.path.dirname(os.path.dirname(os.path.abspath(__file__)))
REPO = os.environ.get("VERIF_REPO", "/repo")
GOROOT = "/opt/veriftools/go1.26.8"
GO = os.path.join(GOROOT, "bin", "go")
BUILD = os.path.join(VERIF, ".build")

# Every directory under /verif/harness is a group (one test binary). Groups whose istio files are
# compiled against shims list their import rewrites here.
REWRITES = {
    "shard": {
        "pilot/pkg/model/endpointshards.go": {'"sync"': 'sync "istio.io/istio/pkg/verifshim/vsync"'},
    },
    "agent": {
        "security/pkg/nodeagent/cache/secretcache.go": {
            '"sync"': 'sync "istio.io/istio/pkg/verifshim/vsync"',
            '"github.com/fsnotify/fsnotify"': 'fsnotify "istio.io/istio/pkg/verifshim/vfsnotify"',
            '"math/rand/v2"': 'rand "istio.io/istio/pkg/verifshim/vrand"',
        },
    },
}


def groups():
    d = os.path.join(VERIF, "harness")
    return sorted(g for g in os.listdir(d) if os.path.isdir(os.path.join(d, g)))


def goenv():
    env = dict(os.environ)
    env.update(
        {
            "GOFLAGS": "-mod=mod",
            "GOPROXY": "off",
            "GOTOOLCHAIN": "local",
            "GOROOT": GOROOT,
            "PATH": os.path.join(GOROOT, "bin") + ":" + env.get("PATH", ""),
            "CGO_ENABLED": "0",
        }
    )
    env.pop("GOSUMDB", None)
    return env


RUNTIME_PATCH_TAIL = r'''

// ---- verif seam (added by /verif/lib/vbuild.py; see DESIGN.md section 2.4) ----

// verifMapRand, when non-zero, replaces every random draw that decides map hash seeds and map
// iteration offsets, and seeds a process-global cheaprand stream (select case order).
var verifMapRand uint64
var verifCheap uint64
var verifStream uint64

// verifNoPreempt (VERIF_NOPREEMPT set) switches off sysmon's time-slice preemption of running
// goroutines: which goroutine runs next then no longer depends on how long the OS let this thread run.
var verifNoPreempt bool

func init() {
	verifNoPreempt = gogetenv("VERIF_NOPREEMPT") != ""
	s := gogetenv("VERIF_MAPRAND")
	if s == "" {
		return
	}
	var v uint64
	for i := 0; i < len(s); i++ {
		c := s[i]
		if c < '0' || c > '9' {
			break
		}
		v = v*10 + uint64(c-'0')
	}
	if v == 0 {
		return
	}
	verifMapRand = v
	verifCheap = v
	verifStream = v
	key := (*[hashRandomBytes / 8]uint64)(unsafe.Pointer(&aeskeysched))
	for i := range key {
		key[i] = 0x9e3779b97f4a7c15 * uint64(i+1)
	}
	for i := range hashkey {
		hashkey[i] = uintptr(0x9e3779b97f4a7c15*uint64(i+1)) | 1
	}
}

// verifSelectRandn is selectgo's own random stream under the seam: cheaprand is shared with many
// runtime-internal users (pcvalue cache eviction, semaphore queues, ...) whose call counts vary from
// run to run, so a select with several ready cases would otherwise pick differently in identical runs.
//
//go:nosplit
func verifSelectRandn(n uint32) uint32 {
	if verifMapRand == 0 {
		return cheaprandn(n)
	}
	verifCheap += 0xa0761d6478bd642f
	hi, lo := math.Mul64(verifCheap, verifCheap^0xe7037ed1a0b428db)
	return uint32((uint64(uint32(hi^lo)) * uint64(n)) >> 32)
}

// VerifSetMapRand switches the constant used for map seeds / iteration offsets (0 = runtime default).
func VerifSetMapRand(v uint64) { verifMapRand = v; verifCheap = v; verifStream = v }

// VerifMapRand returns the constant in force.
func VerifMapRand() uint64 { return verifMapRand }

// VerifGoid returns the id of the calling goroutine.
func VerifGoid() uint64 { return getg().goid }
'''


def gen_runtime_rand():
    src = open(os.path.join(GOROOT, "src/runtime/rand.go")).read()
    a = "func rand32() uint32 {\n\treturn uint32(rand())\n}"
    b = "func maps_rand() uint64 {\n\treturn rand()\n}"
    c = "func cheaprand() uint32 {\n\tmp := getg().m\n"
    d = "func rand() uint64 {\n"
    for anchor in (a, b, d):
        if src.count(anchor) != 1:
            raise SystemExit("runtime/rand.go: anchor not found: " + anchor[:30])
    src = src.replace(a, "func rand32() uint32 {\n\tif verifMapRand != 0 {\n\t\treturn uint32(verifMapRand)\n\t}\n\treturn uint32(rand())\n}")
    src = src.replace(b, "func maps_rand() uint64 {\n\tif verifMapRand != 0 {\n\t\treturn verifMapRand\n\t}\n\treturn rand()\n}")
    # runtime.rand itself: compiler-generated code seeds non-escaping (stack allocated) maps with it,
    # math/rand/v2's top-level functions draw from it. Under the seam it is a deterministic splitmix64
    # stream (not a constant: rejection-sampling callers must see varying values).
    src = src.replace(
        d,
        "func rand() uint64 {\n\tif verifMapRand != 0 {\n\t\tverifStream += 0x9e3779b97f4a7c15\n\t\tz := verifStream\n"
        "\t\tz = (z ^ (z >> 30)) * 0xbf58476d1ce4e5b9\n\t\tz = (z ^ (z >> 27)) * 0x94d049bb133111eb\n\t\treturn z ^ (z >> 31)\n\t}\n",
        1,
    )
    return src + RUNTIME_PATCH_TAIL


def gen_runtime_select():
    src = open(os.path.join(GOROOT, "src/runtime/select.go")).read()
    a = "cheaprandn(uint32(norder + 1))"
    if src.count(a) != 1:
        raise SystemExit("runtime/select.go: anchor not found")
    return src.replace(a, "verifSelectRandn(uint32(norder + 1))")


def gen_runtime_proc():
    src = open(os.path.join(GOROOT, "src/runtime/proc.go")).read()
    a = "} else if pd.schedwhen+forcePreemptNS <= now {"
    if src.count(a) != 1:
        raise SystemExit("runtime/proc.go: anchor not found")
    return src.replace(a, "} else if pd.schedwhen+forcePreemptNS <= now && !verifNoPreempt {")


def write_if_changed(path, content):
    os.makedirs(os.path.dirname(path), exist_ok=True)
    try:
        if open(path).read() == content:
            return
    except FileNotFoundError:
        pass
    with open(path, "w") as f:
        f.write(content)


_MUT = None


def mutation_files():
    """VERIF_MUTATION=<unified diff against /repo>: returns {repo-relative path: patched copy}. The
    diff is applied to copies of the touched files, which then replace the originals in the overlay
    (used for detection demos and seeded changes; /repo is not touched)."""
    global _MUT
    if _MUT is not None:
        return _MUT
    _MUT = {}
    diff = os.environ.get("VERIF_MUTATION")
    if not diff:
        return _MUT
    import hashlib
    import shutil
    text = open(diff).read()
    files = re.findall(r"^\+\+\+ b/(\S+)", text, re.M)
    root = os.path.join(BUILD, "gen", "mut", hashlib.sha256(text.encode()).hexdigest()[:12])
    shutil.rmtree(root, ignore_errors=True)
    for f in files:
        os.makedirs(os.path.dirname(os.path.join(root, f)), exist_ok=True)
        if os.path.exists(os.path.join(REPO, f)):
            shutil.copy(os.path.join(REPO, f), os.path.join(root, f))
    p = subprocess.run(["patch", "-p1", "-s", "--no-backup-if-mismatch", "-d", root, "-i", os.path.abspath(diff)], stdout=subprocess.PIPE, stderr=subprocess.STDOUT, text=True)
    if p.returncode != 0:
        sys.stderr.write(p.stdout)
        sys.stderr.write("mutation does not apply: " + diff + "\n")
        raise SystemExit(2)  # an infrastructure error, never to be mistaken for a violation (exit 1)
    for f in files:
        dst = os.path.join(root, f) + ".txt"
        os.rename(os.path.join(root, f), dst)
        _MUT[f] = dst
    return _MUT


def variant():
    """Suffix that keeps the build products of a VERIF_MUTATION run apart from those of a normal run
    (both may be running at the same time)."""
    diff = os.environ.get("VERIF_MUTATION")
    if not diff:
        return ""
    import hashlib
    return "-mut" + hashlib.sha256(open(diff, "rb").read()).hexdigest()[:12]


def rewrite_imports(relpath, mapping):
    src = open(mutation_files().get(relpath) or os.path.join(REPO, relpath)).read()
    m = re.search(r"^import \((.*?)^\)", src, re.S | re.M)
    if not m:
        raise SystemExit("no import block in " + relpath)
    block = m.group(1)
    for old, new in mapping.items():
        pat = re.compile(r"^\t(?:\w+ )?" + re.escape(old) + r"\s*$", re.M)
        if len(pat.findall(block)) != 1:
            raise SystemExit("%s: import %s not found exactly once" % (relpath, old))
        block = pat.sub("\t" + new, block)
    return src[: m.start(1)] + block + src[m.end(1):]


def gen_overlay(group):
    """Regenerates /verif/.build/overlay-<group>.json from the working tree; returns its path."""
    repl = {}
    rt = os.path.join(BUILD, "gen", "runtime_rand.go.txt")
    write_if_changed(rt, gen_runtime_rand())
    repl[os.path.join(GOROOT, "src/runtime/rand.go")] = rt
    rs = os.path.join(BUILD, "gen", "runtime_select.go.txt")
    write_if_changed(rs, gen_runtime_select())
    repl[os.path.join(GOROOT, "src/runtime/select.go")] = rs
    rp = os.path.join(BUILD, "gen", "runtime_proc.go.txt")
    write_if_changed(rp, gen_runtime_proc())
    repl[os.path.join(GOROOT, "src/runtime/proc.go")] = rp

    def map_dir(srcdir, dstdir, prefix=""):
        if not os.path.isdir(srcdir):
            return
        for fn in sorted(os.listdir(srcdir)):
            if fn.endswith(".go") or fn.endswith(".yaml") or fn.endswith(".json") or fn.endswith(".txt"):
                repl[os.path.join(dstdir, prefix + fn)] = os.path.join(srcdir, fn)

    map_dir(os.path.join(VERIF, "engine"), os.path.join(REPO, "zz_verif/engine"))
    map_dir(os.path.join(VERIF, "harness", group), os.path.join(REPO, "zz_verif", group))
    shims = os.path.join(VERIF, "shims")
    for name in sorted(os.listdir(shims)) if os.path.isdir(shims) else []:
        map_dir(os.path.join(shims, name), os.path.join(REPO, "pkg/verifshim", name))
    hooks = os.path.join(VERIF, "hooks")
    for root, _dirs, files in os.walk(hooks):
        rel = os.path.relpath(root, hooks)
        if rel == ".":
            continue
        if not os.path.isdir(os.path.join(REPO, rel)):
            raise SystemExit("hook target package missing in /repo: " + rel)
        for fn in sorted(files):
            if fn.endswith(".go"):
                repl[os.path.join(REPO, rel, "zz_verif_" + fn)] = os.path.join(root, fn)
    for relpath, mpath in mutation_files().items():
        repl[os.path.join(REPO, relpath)] = mpath
    for relpath, mapping in REWRITES.get(group, {}).items():
        out = os.path.join(BUILD, "gen", group + variant(), relpath + ".txt")
        write_if_changed(out, rewrite_imports(relpath, mapping))
        repl[os.path.join(REPO, relpath)] = out
    path = os.path.join(BUILD, "overlay-%s%s.json" % (group, variant()))
    write_if_changed(path, json.dumps({"Replace": repl}, indent=1, sort_keys=True))
    return path


def build(group, race=False, quiet=False):
    """Builds the harness test binary of a group from /repo's working tree. Returns binary path."""
    ov = gen_overlay(group)
    out = os.path.join(BUILD, "bin", group + variant() + (".race" if race else "") + ".test")
    os.makedirs(os.path.dirname(out), exist_ok=True)
    cmd = [GO, "test", "-c", "-tags", "verif", "-vet=off", "-overlay", ov, "-o", out]
    env = goenv()
    if race:
        cmd.insert(2, "-race")
        env["CGO_ENABLED"] = "1"
    cmd.append("./zz_verif/" + group)
    t0 = time.time()
    p = subprocess.run(cmd, cwd=REPO, env=env, stdout=subprocess.PIPE, stderr=subprocess.STDOUT, text=True)
    if p.returncode != 0:
        sys.stderr.write(p.stdout)
        raise SystemExit(2)
    if not quiet:
        sys.stderr.write("[build] %s%s in %.1fs\n" % (group, " (race)" if race else "", time.time() - t0))
    return out
