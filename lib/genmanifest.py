#!/usr/bin/env python3
"""Regenerates /verif/MANIFEST.json from lib/registry.py + lib/manifest_meta.py (single source of truth)."""
import json, os, sys
sys.path.insert(0, os.path.dirname(os.path.abspath(__file__)))
from registry import CHECKS
from manifest_meta import META, NOT_APPLICABLE, ALL_IDS

checks = []
for pid in sorted(CHECKS):
    m = META[pid]
    checks.append({
        "property_id": pid,
        "quick_cmd": "/verif/bin/check %s quick" % pid,
        "thorough_cmd": "/verif/bin/check %s thorough" % pid,
        "evidence_file": "/verif/evidence/%s.json" % pid,
        "replay_cmd_template": "/verif/bin/check %s --replay {path}" % pid,
        "engine": "verif-explorer",
        "level_claimed": {"category": CHECKS[pid]["level"], "text": m["text"], "design_ref": m["design_ref"]},
        "level_note": m["note"],
        "technique": m["technique"],
    })
na = [{"property_id": p, "reason": NOT_APPLICABLE.get(p, "check not built yet (work in progress; see DESIGN.md)")} for p in ALL_IDS if p not in CHECKS]
man = {
    "version": 1,
    "setup_cmd": "/verif/bin/check --setup",
    "hooks": {
        "guard": "verif",
        "enable": "go1.26.8 test -c -tags verif -overlay /verif/.build/overlay-<group>.json (hooks are add-only files under /verif/hooks mapped into istio packages by the overlay; /repo carries no hook commit)",
        "baseline_off_cmd": "cd /repo && GOFLAGS=-mod=mod GOPROXY=off go test -json -vet=off -count=1 -timeout 25m ./...",
        "source_commits": [],
        "add_only": True,
    },
    "engines": [{
        "name": "verif-explorer",
        "path": "/verif/shims/sched, /verif/engine, /verif/bin/check",
        "serves_properties": sorted(CHECKS),
        "kind_free_text": "hand-written stateless model checker for Go: choice-sequence DFS with deviation (preemption) bounding, cooperative scheduler inside testing/synctest bubbles with a scheduling sync shim injected by overlay import rewrite, explicit-state BFS over real objects, exhaustive finite-product enumerators, deterministic map layout through a runtime seam",
    }],
    "checks": checks,
    "not_applicable": na,
    "notes": "See DESIGN.md. fix: commits in /repo and recorded findings are listed in /verif/known_findings.json.",
}
json.dump(man, open(os.path.join(os.path.dirname(os.path.abspath(__file__)), "..", "MANIFEST.json"), "w"), indent=1)
print("checks:", len(checks), "not_applicable:", len(na))
