#!/usr/bin/env python3
"""prints the prompt for a seeded-change agent: seed_prompt.py <ID> <worktree>"""
import json, sys
pid, wt = sys.argv[1], sys.argv[2]
for l in open('/verif/properties.jsonl'):
    d = json.loads(l)
    if d['id'] == pid:
        break
print(f"""You are a software engineer asked to produce realistic, subtle regressions in the istio/istio code base (Go) for the purpose of evaluating a verification tool. You work ONLY inside the git worktree {wt} (a checkout of the repository; create files only there or under {wt}-out/). There is no network. Go works offline with: export GOFLAGS=-mod=mod GOPROXY=off (use the default `go`; do not set GOTOOLCHAIN). Do not look at or use anything under /verif or /repo.

The property that your changes must break:

  {d['title']}
  {d['statement']}

Produce TWO independent changes to the non-test source code (each a separate small patch against the worktree's HEAD, touching different mechanisms) such that, for each:
  1. the code still compiles (`go build ./...` of the touched packages and their dependents) and the EXISTING tests of the touched package(s) still pass unmodified (`go test -vet=off -count=1 <touched packages>`; also run the tests of the 2-3 packages most likely to notice), 
  2. the property above is genuinely violated, but only under something specific: a particular interleaving of goroutines, a fault at a particular point, a multi-step sequence of operations, an unusual input, or two cooperating sites that each look fine alone - NOT something ordinary use exposes at once; prefer the kind of mistake a real refactoring or optimisation could introduce (a dropped re-check, a condition narrowed, a lock scope shrunk, a merge that forgets a field, a cache key that forgets an attribute, an early return, an off-by-one in a boundary), not sabotage,
  3. you provide a demonstration: a new Go test file (placed next to the touched code in the worktree, name it zz_seed_<n>_test.go) that FAILS with your change applied and PASSES on the unchanged tree (verify both: save your change with `git diff > {wt}-out/tmp.patch`, undo it with `git checkout -- <files>`, re-apply with `git apply {wt}-out/tmp.patch`; NEVER use `git stash`: the stash is shared with other checkouts of this repository). The demonstration may use internal identifiers and may construct the specific interleaving with channels/hooks, but must not depend on wall-clock races: it must fail deterministically (run it 3 times).
Work method: read the code that implements the property first (find it with grep; start from pilot/pkg, pkg/, security/pkg as appropriate), pick two distinct mechanisms, make one change, write its demonstration, verify (fails with / passes without), save it, revert it (`git checkout -- .`), then do the second. Other engineers have already tried the most obvious place for this property; prefer a second- or third-most obvious mechanism (a helper, a cache, an index, a fast path, a less common configuration kind or protocol flavour) over the first function that comes to mind. Keep your CPU use moderate (`go test -p 4`).
Deliverables, written under {wt}-out/ (create the directory): for n in 1,2: {wt}-out/seed<n>/patch.diff (output of `git diff` of the source change only, WITHOUT the demonstration test), {wt}-out/seed<n>/demo_test.go (the demonstration test file, with a first-line comment saying in which package directory it must be placed), {wt}-out/seed<n>/NOTES.md (what the change is, why it breaks the property, what it needs in order to manifest, the exact commands you ran and their results: build, existing package tests, demonstration with and without the change). Leave the worktree clean (git checkout -- . ; remove your test files) when you finish. Report a short summary of the two changes at the end.""")
